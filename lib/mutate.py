"""Structure-aware random mutators over gen.Stream (RDH fields, payload words, packets)."""
import its

RDH_FIELD_VALUES = {
    "header_id": [3, 6, 7, 8, 0, 255], "header_size": [0, 0x3F, 0x41, 0xFF], "priority_bit": [1, 255], "system_id": [0, 31, 33, 255],
    "rdh0_reserved": [1, 0x8000, 0xFFFF], "bc": [0xDEB, 0xDEC, 0xFFF], "rdh1_reserved": [1, 0x80000], "data_format": [0, 1, 2, 3, 255],
    "df_reserved": [1, 1 << 55], "trigger_type": [0, 1 << 15, 1 << 26, 0xFFFFFFFF, 0x10, 0x2], "pages_counter": [0, 1, 2, 0xFFFF],
    "stop_bit": [0, 1, 2, 255], "rdh2_reserved": [1, 0x80], "reserved1": [1], "detector_field": [1 << 12, 1 << 23, 0xF, 1 << 27],
    "par_bit": [1], "rdh3_reserved": [1, 0x8000], "reserved2": [1], "dw": [2, 15], "orbit": [0, 0xFFFFFFFF], "packet_counter": [0, 255],
    "cru_id": [0, 0xFFF], "link_id": [0, 12, 255],
}


def _pick_pkt(rng, s):
    l = rng.randrange(len(s.pkts))
    while not s.pkts[l]:
        l = rng.randrange(len(s.pkts))
    i = rng.randrange(len(s.pkts[l]))
    return l, i, s.pkts[l][i]


def mutate_once(rng, s, keep_framing=True, allow=("rdh", "word", "pad", "packet")):
    """Apply one random mutation in place; returns a description."""
    kind = rng.choice(allow)
    l, i, p = _pick_pkt(rng, s)
    if kind == "rdh":
        r = rng.random()
        if r < 0.5:
            k = rng.choice(list(RDH_FIELD_VALUES))
            v = rng.choice(RDH_FIELD_VALUES[k])
            p.f[k] = v
            return "link %d packet %d: RDH %s = %#x" % (l, i, k, v)
        if r < 0.7:
            fee = p.f["fee_id"] ^ (1 << rng.randrange(16))
            p.f["fee_id"] = fee
            return "link %d packet %d: RDH fee_id = %#x" % (l, i, fee)
        k = rng.choice(["orbit", "trigger_type", "pages_counter", "bc", "detector_field"])
        bit = rng.randrange({"orbit": 32, "trigger_type": 32, "pages_counter": 16, "bc": 12, "detector_field": 32}[k])
        p.f[k] = p.f.get(k, 0) ^ (1 << bit)
        return "link %d packet %d: RDH %s bit %d flipped" % (l, i, k, bit)
    if kind == "word" and p.words:
        j = rng.randrange(len(p.words))
        op = rng.choice(["flip", "flip", "id", "random", "delete", "dup", "insert", "swap"])
        w = bytearray(p.words[j][1])
        if op == "flip":
            b = rng.randrange(80)
            w[b // 8] ^= 1 << (b % 8)
            p.words[j][1] = bytes(w)
            return "link %d packet %d word %d: bit %d flipped" % (l, i, j, b)
        if op == "id":
            w[9] = rng.choice([0xE0, 0xE8, 0xF0, 0xE4, 0xF8, 0x20, 0x28, 0x29, 0x3D, 0x40, 0x47, 0x4F, 0x5E, 0x5F, 0x00, 0xFF, 0xE1, rng.randrange(256)])
            p.words[j][1] = bytes(w)
            return "link %d packet %d word %d: identifier = %#x" % (l, i, j, w[9])
        if op == "random":
            p.words[j][1] = bytes(rng.getrandbits(8) for _ in range(10))
            return "link %d packet %d word %d: random bytes" % (l, i, j)
        if op == "delete":
            del p.words[j]
            return "link %d packet %d word %d: deleted" % (l, i, j)
        if op == "dup":
            p.words.insert(j, [p.words[j][0], p.words[j][1]])
            return "link %d packet %d word %d: duplicated" % (l, i, j)
        if op == "insert":
            nw = rng.choice([its.tdh(0x3, 1, rng.getrandbits(1), rng.getrandbits(1), rng.getrandbits(12), rng.getrandbits(32)), its.tdt(rng.getrandbits(1)),
                             its.ihw(rng.getrandbits(28)), its.ddw0(), its.cdw(rng.getrandbits(48), rng.getrandbits(8)),
                             its.data_word(rng.choice(sorted(its.DATA_IDS)), bytes(rng.getrandbits(8) for _ in range(9)))])
            p.words.insert(j, ["X", nw])
            return "link %d packet %d word %d: inserted %s" % (l, i, j, nw.hex())
        if op == "swap" and j + 1 < len(p.words):
            p.words[j], p.words[j + 1] = p.words[j + 1], p.words[j]
            return "link %d packet %d words %d,%d: swapped" % (l, i, j, j + 1)
        return "noop"
    if kind == "pad":
        if s.fmt == 2:
            p.pad = rng.choice([0, 9, 10, 15, 16, 17, 30, 40])
            return "link %d packet %d: %d bytes of 0xFF padding" % (l, i, p.pad)
        return "noop"
    if kind == "packet":
        op = rng.choice(["delete", "dup", "swap"])
        if op == "delete" and len(s.pkts[l]) > 1:
            del s.pkts[l][i]
            s.merge("contiguous")
            return "link %d packet %d: deleted" % (l, i)
        if op == "dup":
            s.pkts[l].insert(i, p.copy())
            s.merge("contiguous")
            return "link %d packet %d: duplicated" % (l, i)
        if op == "swap" and i + 1 < len(s.pkts[l]):
            s.pkts[l][i], s.pkts[l][i + 1] = s.pkts[l][i + 1], s.pkts[l][i]
            return "link %d packets %d,%d: swapped" % (l, i, i + 1)
    return "noop"


def layout_agrees(s):
    """True when, for every packet, the tool's content sniffing (bytes 10..16 of the payload all zero => 16-byte slots)
    agrees with the stream's data format, and the header's data_format field selects the same slot size."""
    for lp in s.pkts:
        for p in lp:
            pl = p.payload(s.fmt)
            sn0 = len(pl) >= 16 and pl[10:16] == bytes(6)
            hdr0 = p.f.get("data_format", s.fmt) == 0
            if sn0 != (s.fmt == 0) or hdr0 != (s.fmt == 0):
                return False
    return True


def remerge(rng, s):
    s.merge(rng.choice(["contiguous", "roundrobin", "random", "hbf"]), rng)
