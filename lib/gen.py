"""G-conf: seeded grammar generator of protocol-conforming ITS raw data streams, with ground truth.

Structure first, bytes second: a Stream holds per-link packet lists (RDH fields + typed payload words); `serialize`
lays the packets out in a chosen merge order and computes every offset. Mutators and re-merges work on the structure.

Grammar (from doc/checks_list.md, doc/ITS_payload_fsm_continuous_mode.puml, the shipped test files):
  link      := HBF+                       one (link id, FEE id) pair; orbit strictly increasing per HBF
  HBF       := page{0..n-1}(stop=0) stop_page(stop=1, pages_counter=n, payload = DDW0)
  page      := IHW trigger_block+ [split]            or   IHW TDH(cont=1) data* TDT   (continuation of a split packet)
  trigger_block := TDH(no_data=1) | TDH(no_data=0) [CDW] data+ TDT(packet_done=1)
  split     := TDH [CDW] data+ TDT(packet_done=0)    (last block of a page; continued on the next page)
  data      := 9-byte chunks of each lane's ALPIDE byte stream, lanes interleaved in any order
"""
import random
import rdh as R, its, alpide

# RDH trigger type bits
ORBIT, HB, HBR, HC, PHT, PP, CAL, SOT, EOT, SOC, EOC, TF, FERST, RT, RS = (1 << i for i in range(15))
EXTRA_BITS = [1 << 27, 1 << 28, 1 << 29, 1 << 30, 1 << 31]


class Link:
    def __init__(self, link_id, layer, stave, fiber, lanes, cru_id, dw):
        self.link_id, self.layer, self.stave, self.fiber = link_id, layer, stave, fiber
        self.fee = R.fee_id(layer, stave, fiber)
        self.lanes = lanes          # data word identifiers of this uplink
        self.cru_id, self.dw = cru_id, dw


class Pkt:
    def __init__(self, link, f, words, pad=0, meta=None):
        self.link = link            # index into stream.links
        self.f = f                  # RDH fields (sizes are set by serialize)
        self.words = words          # list of [kind, bytes(10)]
        self.pad = pad              # bytes of 0xFF appended (format 2)
        self.meta = meta or {}
        self.offset = None
        self.word_offsets = []
        self.full = None            # complete RDH field dict as serialized

    def copy(self):
        p = Pkt(self.link, dict(self.f), [[k, bytes(w)] for k, w in self.words], self.pad, dict(self.meta))
        return p

    def payload(self, fmt):
        out = bytearray()
        if fmt == 0:
            for _, w in self.words:
                out += w + bytes(6)
        else:
            for _, w in self.words:
                out += w
            out += b"\xff" * self.pad
        return bytes(out)


class Stream:
    def __init__(self, version, fmt):
        self.version, self.fmt = version, fmt
        self.links = []
        self.pkts = []      # per link: list of Pkt
        self.order = []     # list of (link index, packet index within link)
        self.features = set()
        self.frames = []    # ground truth of readout frames: dicts (link, tdh=(pkt idx, word idx), tdt=..., flags=[...])

    def feature_vector(self):
        return tuple(sorted(self.features))

    def all_packets(self):
        return [self.pkts[l][i] for l, i in self.order]

    def serialize(self):
        out = bytearray()
        slot = 16 if self.fmt == 0 else 10
        for l, i in self.order:
            p = self.pkts[l][i]
            pl = p.payload(p.f.get("data_format", self.fmt) if False else self.fmt)
            p.offset = len(out)
            size = 64 + len(pl)
            f = dict(R.DEFAULT)
            f.update(p.f)
            f.setdefault("offset_to_next", size)
            f.setdefault("memory_size", size)
            if "offset_to_next" not in p.f:
                f["offset_to_next"] = size
            if "memory_size" not in p.f:
                f["memory_size"] = size
            p.full = f
            out += R.pack(f) + pl
            p.word_offsets = [p.offset + 64 + k * slot for k in range(len(p.words))]
        return bytes(out)

    # ---- merges ------------------------------------------------------------------------------
    def merge(self, kind, rng=None):
        n = [len(x) for x in self.pkts]
        if kind == "contiguous":
            self.order = [(l, i) for l in range(len(n)) for i in range(n[l])]
        elif kind == "roundrobin":
            self.order = []
            for i in range(max(n) if n else 0):
                for l in range(len(n)):
                    if i < n[l]:
                        self.order.append((l, i))
        elif kind == "hbf":  # whole HBFs round robin
            self.order = []
            pos = [0] * len(n)
            while any(pos[l] < n[l] for l in range(len(n))):
                for l in range(len(n)):
                    while pos[l] < n[l]:
                        p = self.pkts[l][pos[l]]
                        self.order.append((l, pos[l]))
                        pos[l] += 1
                        if p.f["stop_bit"] == 1:
                            break
        else:  # random merge keeping each link's order
            pos = [0] * len(n)
            self.order = []
            live = [l for l in range(len(n)) if n[l]]
            while live:
                l = rng.choice(live)
                burst = rng.choice([1, 1, 2, 5])
                for _ in range(burst):
                    if pos[l] < n[l]:
                        self.order.append((l, pos[l]))
                        pos[l] += 1
                if pos[l] >= n[l]:
                    live.remove(l)
        self.features.add("merge:" + kind)

    def single_link(self, l):
        """A new Stream holding only link l (same packets, copied)."""
        s = Stream(self.version, self.fmt)
        s.links = [self.links[l]]
        s.pkts = [[p.copy() for p in self.pkts[l]]]
        for p in s.pkts[0]:
            p.link = 0
        s.order = [(0, i) for i in range(len(s.pkts[0]))]
        return s

    def copy(self):
        s = Stream(self.version, self.fmt)
        s.links = list(self.links)
        s.pkts = [[p.copy() for p in lp] for lp in self.pkts]
        s.order = list(self.order)
        s.features = set(self.features)
        s.frames = list(self.frames)
        return s

    # ---- ground truth -------------------------------------------------------------------------
    def truth(self):
        """Counters an independent reading of the structure gives (all packets analysed, no filter)."""
        pk = self.all_packets()
        t = dict(rdhs=len(pk), payload=sum(len(p.payload(self.fmt)) for p in pk),
                 hbfs=sum(1 for p in pk if p.f["stop_bit"] == 1),
                 links=sorted(set(self.links[p.link].link_id for p in pk)),
                 pht=sum(1 for p in pk if p.f["trigger_type"] & PHT))
        fees, ls = [], []
        for p in pk:
            fee = self.links[p.link].fee
            if fee not in fees:
                fees.append(fee)
            k = (self.links[p.link].layer, self.links[p.link].stave)
            if k not in ls:
                ls.append(k)
        t["fees"], t["layer_staves"] = fees, ls
        return t


# ---------------------------------------------------------------------------------------------------
class Params:
    """Knobs of one generated stream; drawn from a seeded rng unless given."""

    def __init__(self, rng, **kw):
        g = kw.get
        self.version = g("version", rng.choice([6, 7, 7]))
        self.fmt = g("fmt", rng.choice([0, 2, 2]))
        self.n_links = g("n_links", rng.choice([1, 1, 2, 3, 4, 6, 12]))
        self.barrels = g("barrels", rng.choice([["IB"], ["ML"], ["OL"], ["IB", "ML", "OL"]]))
        self.hbfs = g("hbfs", rng.choice([1, 2, 2, 3, 5]))
        self.max_pages = g("max_pages", rng.choice([1, 1, 2, 3, 6]))
        self.max_triggers = g("max_triggers", rng.choice([1, 2, 4, 8]))
        self.p_split = g("p_split", rng.choice([0.0, 0.0, 0.3, 0.6]))
        self.p_nodata = g("p_nodata", rng.choice([0.0, 0.1, 0.4]))
        self.p_cdw = g("p_cdw", rng.choice([0.0, 0.0, 0.3]))
        self.mode = g("mode", rng.choice(["internal", "internal", "pht"]))
        self.pad = g("pad", rng.choice(["align", "align", "random", "none"]))
        self.merge = g("merge", rng.choice(["contiguous", "roundrobin", "random", "hbf"]))
        self.hits = g("hits", rng.choice(["none", "few", "some", "nasty"]))
        self.superset_lanes = g("superset_lanes", rng.random() < 0.2)
        self.period = g("period", None)      # trigger period for internal triggers (C20)
        self.ob_chips = g("ob_chips", rng.choice(["0-6/8-14", "0-6/8-14", "any"]))
        self.target_packets = g("target_packets", None)
        self.det_bits = g("det_bits", rng.random() < 0.5)
        # link ids are not restricted by any documented rule: ids above 15 (aliasing modulo 16 / 32 / 128) and, where validators are
        # per FEE id (stave mode), several FEE ids behind one link id
        self.link_ids = g("link_ids", rng.choice(["std", "std", "wide", "wide"]))
        self.shared_link_ids = g("shared_link_ids", False)
        self.trigger_extra = g("trigger_extra", rng.random() < 0.3)


def _pick_links(rng, P, s):
    used_link, used_fee = set(), set()
    tries = 0
    while len(s.links) < P.n_links and tries < 1000:
        tries += 1
        b = rng.choice(P.barrels)
        layer = rng.choice({"IB": [0, 1, 2], "ML": [3, 4], "OL": [5, 6]}[b])
        stave = rng.randrange(R.STAVES_PER_LAYER[layer])
        groups = its.lane_groups(layer)
        fiber = rng.randrange(len(groups))
        fee = R.fee_id(layer, stave, fiber)
        if fee in used_fee:
            continue
        if P.shared_link_ids and used_link and rng.random() < 0.6:
            link_id = rng.choice(sorted(used_link))
            s.features.add("links:shared_link_id")
        elif P.link_ids == "wide" and rng.random() < 0.7:
            base = rng.choice(sorted(used_link)) if used_link and rng.random() < 0.7 else rng.randrange(256)
            cand = [(base + k) & 0xFF for k in (16, 32, 64, 128, 240, 0) if ((base + k) & 0xFF) not in used_link]
            link_id = rng.choice(cand) if cand else rng.choice([x for x in range(256) if x not in used_link])
            s.features.add("links:wide_ids")
        else:
            link_id = rng.choice([x for x in range(0, 24) if x not in used_link]) if P.n_links > 12 else \
                rng.choice([x for x in list(range(12)) + [15] if x not in used_link] or [x for x in range(256) if x not in used_link])
        used_link.add(link_id)
        used_fee.add(fee)
        s.links.append(Link(link_id, layer, stave, fiber, list(groups[fiber]), rng.randrange(4096), rng.choice([0, 0, 1])))
        s.features.add("barrel:" + b)
        s.features.add("layer:%d" % layer)


def _lane_data(rng, P, link, bc, s, flags_out, chips_out=None):
    """ALPIDE byte stream per lane for one readout frame. Returns {ident: bytes}."""
    res = {}
    ib = link.layer <= 2
    for ident in link.lanes:
        chips = []
        if ib:
            ids = [ident & 0x1F]
        else:
            if P.ob_chips == "any":
                n = rng.choice([1, 3, 7])
                ids = rng.sample(range(15), n)
                s.features.add("ob_chips:any")
            else:
                ids = list(range(0, 7)) if rng.random() < 0.5 else list(range(8, 15))
        for cid in ids:
            empty = P.hits == "none" or rng.random() < 0.4
            if empty:
                chips.append(alpide.Chip(cid, bc, empty=True))
                s.features.add("chip:empty")
            else:
                fl = rng.choice([0, 0, 0, 1, 2, 4, 8, 12, 14, 3, 7, 5])
                regions = alpide.random_hits(rng, nasty=(P.hits == "nasty")) if P.hits != "few" else \
                    [(rng.randrange(32), [alpide.short_hit(rng.randrange(16), rng.randrange(1024))])]
                busy = []
                nwords = 2 + sum(1 + len(h) for _, h in regions)
                if rng.random() < 0.15 and nwords > 2:
                    busy.append((rng.randrange(1, nwords), rng.choice([0xF0, 0xF1])))
                    s.features.add("alpide:busy")
                chips.append(alpide.Chip(cid, bc, flags=fl, regions=regions, busy=busy))
                flags_out.append(fl)
                s.features.add("chip:data")
                if regions:
                    s.features.add("alpide:hits")
        pad_between = rng.choice([0, 0, 1, 3])
        if chips_out is not None:
            chips_out[ident] = [c.chip_id for c in chips]
        res[ident] = alpide.lane_bytes(chips, pad_between=pad_between, pad_end=rng.choice([0, 0, 2, 11]))
        if pad_between:
            s.features.add("alpide:padding")
    return res


def _interleave(rng, per_lane_words):
    """Merge the lanes' data word lists in any order that keeps each lane's order."""
    style = rng.choice(["lane", "round", "random"])
    lanes = list(per_lane_words.keys())
    rng.shuffle(lanes)
    if style == "lane":
        return [w for l in lanes for w in per_lane_words[l]]
    out, pos = [], {l: 0 for l in lanes}
    if style == "round":
        while any(pos[l] < len(per_lane_words[l]) for l in lanes):
            for l in lanes:
                if pos[l] < len(per_lane_words[l]):
                    out.append(per_lane_words[l][pos[l]])
                    pos[l] += 1
        return out
    live = list(lanes)
    while live:
        l = rng.choice(live)
        out.append(per_lane_words[l][pos[l]])
        pos[l] += 1
        if pos[l] >= len(per_lane_words[l]):
            live.remove(l)
    return out


def _pad_len(rng, P, fmt, nwords):
    if fmt == 0:
        return 0
    if P.pad == "align":
        return (-10 * nwords) % 16
    if P.pad == "none":
        return 0
    return rng.randrange(16)


def _max_words(fmt):
    return 600 if fmt == 0 else 980


def gen_link(rng, P, s, li):
    """Packets of one link."""
    link = s.links[li]
    pkts = []
    # (extreme: one link in twelve starts just below the 32-bit orbit roll-over and passes through orbit 0)
    orbit = rng.randrange(1, 0xFFFF0000) if rng.random() > 0.08 else 0xFFFFFFFF - rng.randrange(0, 3)
    pkt_counter = rng.randrange(256)
    active = its.active_mask(link.lanes)
    if P.superset_lanes:
        active |= rng.getrandbits(28)
        s.features.add("ihw:superset")
    cdw_user = rng.getrandbits(48)
    cdw_idx = rng.randrange(1 << 24)      # the first CDW of a link has no predecessor: any index
    cdw_seen = False
    bc_next = 0
    n_hbf = P.hbfs
    for h in range(n_hbf):
        orbit += rng.choice([1, 1, 1, 2, 256])
        if orbit > 0xFFFFFFFF:
            orbit = 0 if rng.random() < 0.5 else orbit - 0x100000000
            s.features.add("orbit:rollover")
        ttype = ORBIT | HB
        if rng.random() < 0.5:
            ttype |= TF
        if rng.random() < 0.7:
            ttype |= RT | RS
        if h == 0 and rng.random() < 0.3:
            ttype |= SOC if P.mode == "internal" else SOT
        if P.mode == "pht":
            ttype |= PHT
            s.features.add("trigger:PhT")
        if P.trigger_extra:
            ttype |= rng.choice([HBR, HC, PP, CAL, EOT, EOC, FERST] + EXTRA_BITS)
            s.features.add("trigger:extra_bits")
        det = 0
        if P.det_bits:
            det = rng.getrandbits(12) | (rng.getrandbits(3) << 24)
            if rng.random() < 0.3:
                det |= rng.getrandbits(5) << 27
            s.features.add("detfield:status_bits")
        rdh_bc = 0 if rng.random() < 0.7 else rng.randrange(0, 0xDEC)
        if rdh_bc == 0xDEB:
            s.features.add("rdh:bc_max")
        if P.period:
            rdh_bc = bc_next % 3564 if P.mode == "internal" else rdh_bc

        def mk_rdh(page, stop):
            nonlocal pkt_counter
            pkt_counter = (pkt_counter + 1) & 0xFF
            return dict(header_id=s.version, fee_id=link.fee, link_id=link.link_id, packet_counter=pkt_counter,
                        cru_id=link.cru_id, dw=link.dw, bc=rdh_bc, orbit=orbit, data_format=s.fmt, trigger_type=ttype,
                        pages_counter=page, stop_bit=stop, detector_field=det, system_id=32)

        # --- build the trigger list of this HBF -----------------------------------------------
        ntrig = rng.randint(1, P.max_triggers)
        if P.period:
            ntrig = max(1, (3564 - (bc_next % 3564) + P.period - 1) // P.period) if P.period <= 3564 else 1
            ntrig = min(ntrig, 40)
        triggers = []
        bc = rdh_bc
        for t in range(ntrig):
            if t == 0:
                tt, internal = ttype & 0xFFF, (1 if P.mode == "internal" else 0)
            else:
                if P.period and P.mode == "internal":
                    bc = bc + P.period
                else:
                    bc = min(0xDEB, bc + rng.choice([0, 1, 7, 198, 594]))
                if P.mode == "internal":
                    tt, internal = rng.choice([0, 0, ttype & 0xFFF]), 1
                else:
                    tt, internal = (ttype & 0xFFF) | PHT, rng.choice([0, 0, 1])
            if bc > 0xDEB:
                break
            triggers.append(dict(tt=tt, internal=internal, bc=bc, nodata=(rng.random() < P.p_nodata)))
        if P.period and P.mode == "internal" and triggers:
            bc_next = (triggers[-1]["bc"] + P.period) % 3564
        # --- lay triggers out on pages ----------------------------------------------------------
        page = 0
        words = [["IHW", its.ihw(active)]]
        first_in_page = True
        budget_pages = P.max_pages

        def flush(words, page, stop=0):
            pkts.append(Pkt(li, mk_rdh(page, stop), words, _pad_len(rng, P, s.fmt, len(words)), dict(hbf=h, page=page)))

        for ti, tr in enumerate(triggers):
            if not first_in_page and page + 1 < budget_pages and rng.random() < 0.35:
                flush(words, page)
                page += 1
                words = [["IHW", its.ihw(active)]]
                first_in_page = True
                s.features.add("hbf:multi_page")
            if tr["nodata"]:
                words.append(["TDH", its.tdh(tr["tt"], tr["internal"], 1, 0, tr["bc"], orbit)])
                s.features.add("tdh:no_data")
                if ti and triggers[ti - 1]["nodata"]:
                    s.features.add("tdh:no_data_run")
                first_in_page = False
                continue
            words.append(["TDH", its.tdh(tr["tt"], tr["internal"], 0, 0, tr["bc"], orbit)])
            cdw_ok = first_in_page and not any(k == "DATA" for k, _ in words)
            if cdw_ok and rng.random() < P.p_cdw:
                # calibration scan: the index counts under a constant user field and restarts at 0 when the user field changes
                if cdw_seen and rng.random() < 0.4:
                    cdw_user = (cdw_user + 1 + rng.getrandbits(20)) & ((1 << 48) - 1)
                    cdw_idx = 0
                    s.features.add("cdw:scan_step")
                elif cdw_seen:
                    cdw_idx = (cdw_idx + 1) & 0xFFFFFF if rng.random() < 0.7 else rng.randrange(1 << 24)
                    if cdw_idx:
                        s.features.add("cdw:index_nonzero")
                words.append(["CDW", its.cdw(cdw_user, cdw_idx)])
                cdw_seen = True
                s.features.add("cdw")
            flags = []
            frame_bc = rng.choice([0, 0, 255, 1, rng.randrange(256), rng.randrange(256), rng.randrange(256)])   # boundary bunch counters often
            chipmap = {}
            lane = _lane_data(rng, P, link, frame_bc, s, flags, chipmap)
            per_lane = {i: alpide.to_data_words(i, d) for i, d in lane.items()}
            dws = _interleave(rng, per_lane)
            frame = dict(link=li, flags=flags, bc=frame_bc, chips=chipmap, tdh=(len(pkts), len(words) - (2 if words[-1][0] == "CDW" else 1)))
            # split over pages?
            room = _max_words(s.fmt) - len(words) - 2
            want_split = (rng.random() < P.p_split and len(dws) >= 2) or len(dws) > room
            while want_split:
                k = rng.randint(1, min(len(dws) - 1, max(1, room)))
                for w in dws[:k]:
                    words.append(["DATA", w])
                dws = dws[k:]
                words.append(["TDT", its.tdt(packet_done=0, lane_status=_lane_status(rng))])
                flush(words, page)
                page += 1
                budget_pages = max(budget_pages, page + 1)
                words = [["IHW", its.ihw(active)], ["TDH", its.tdh(tr["tt"], tr["internal"], 0, 1, tr["bc"], orbit)]]
                s.features.add("split_packet")
                room = _max_words(s.fmt) - len(words) - 2
                want_split = len(dws) > room or (len(dws) >= 2 and rng.random() < 0.15)
                if want_split:
                    s.features.add("split_packet:multi")
            for w in dws:
                words.append(["DATA", w])
            words.append(["TDT", its.tdt(packet_done=1, lane_status=_lane_status(rng),
                                         timeout_to_start=int(rng.random() < 0.05),
                                         lane_starts_violation=int(rng.random() < 0.05))])
            frame["tdt"] = (len(pkts), len(words) - 1)
            s.frames.append(frame)
            first_in_page = False
        flush(words, page)
        # stop page
        flush([["DDW", its.ddw0(lane_status=_lane_status(rng), transmission_timeout=int(rng.random() < 0.05))]], page + 1, 1)
        s.features.add("hbf:pages=%d" % min(page + 2, 6))
    return pkts


def _lane_status(rng):
    if rng.random() < 0.8:
        return 0
    v = 0
    for lane in range(28):
        if rng.random() < 0.1:
            v |= rng.choice([1, 2]) << (2 * lane)
    return v


def generate(seed, **kw):
    rng = random.Random(seed)
    P = Params(rng, **kw)
    s = Stream(P.version, P.fmt)
    s.params = P
    s.features |= {"version:%d" % P.version, "format:%d" % P.fmt, "mode:" + P.mode, "pad:" + P.pad, "hits:" + P.hits}
    _pick_links(rng, P, s)
    s.features.add("links:%d" % len(s.links))
    for li in range(len(s.links)):
        s.pkts.append(gen_link(rng, P, s, li))
    if P.target_packets:
        # repeat HBFs of every link until the wanted packet count is reached exactly (trim/extend the last link)
        _fit_packet_count(rng, P, s)
    s.merge(P.merge, rng)
    n = sum(len(x) for x in s.pkts)
    if n % 100 == 0:
        s.features.add("packets:batch_multiple")
    s.features.add("packets:%s" % ("<100" if n < 100 else ("100-999" if n < 1000 else ">=1000")))
    for lp in s.pkts:
        for p in lp:
            if s.fmt == 2:
                s.features.add("padlen:%d" % p.pad)
    return s


def _drop_tail_hbf(s, l_i):
    """remove the last (two-packet) HBF of a link; the ground truth follows the packets: frames that started in a removed packet go with it"""
    del s.pkts[l_i][-2:]
    n = len(s.pkts[l_i])
    s.frames = [fr for fr in s.frames if not (fr["link"] == l_i and fr["tdh"][0] >= n)]


def _fit_packet_count(rng, P, s):
    """Make the total packet count exactly P.target_packets by appending small HBFs (2 packets) and, if the
    remainder is odd, one three-page HBF."""
    total = sum(len(x) for x in s.pkts)
    Q = Params(random.Random(1), version=P.version, fmt=P.fmt, hbfs=1, max_pages=1, max_triggers=1, p_split=0.0,
               p_nodata=1.0, p_cdw=0.0, mode=P.mode, pad=P.pad, hits="none", superset_lanes=False, period=None,
               det_bits=False, trigger_extra=False, n_links=P.n_links, barrels=P.barrels, merge=P.merge,
               ob_chips=P.ob_chips)
    li = 0
    while total < P.target_packets:
        need = P.target_packets - total
        if need == 1:
            # cannot add a single packet: drop one 2-packet HBF somewhere and add a 3-packet one instead
            for l_i, lp in enumerate(s.pkts):
                if len(lp) > 2 and lp[-1].f["stop_bit"] == 1 and lp[-2].f["pages_counter"] == 0:
                    _drop_tail_hbf(s, l_i)
                    total -= 2
                    break
            else:
                break
            need = P.target_packets - total
        link_pk = s.pkts[li % len(s.pkts)]
        last = link_pk[-1]
        new = gen_link(rng, Q, s, li % len(s.pkts))
        base = last.f["orbit"]
        for p in new:
            p.f["orbit"] = (base + 1) & 0xFFFFFFFF
            for w in p.words:
                if w[0] == "TDH":
                    f = its.tdh_fields(w[1])
                    w[1] = its.tdh(f["trigger_type"], f["internal"], f["no_data"], f["cont"], f["bc"], p.f["orbit"])
            p.f["packet_counter"] = (last.f["packet_counter"] + 1) & 0xFF
        if need % 2 == 1:
            extra = new[0].copy()
            extra.f["pages_counter"] = 1
            new[1].f["pages_counter"] = 2
            new = [new[0], extra, new[1]]
        link_pk.extend(new)
        total += len(new)
        li += 1
    # trim if we overshot (remove whole small HBFs from the end of links)
    while total > P.target_packets:
        for l_i, lp in enumerate(s.pkts):
            if total - P.target_packets >= 2 and len(lp) > 2 and lp[-1].f["stop_bit"] == 1 and lp[-2].f["pages_counter"] == 0:
                _drop_tail_hbf(s, l_i)
                total -= 2
                break
        else:
            break
