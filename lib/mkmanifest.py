#!/usr/bin/env python3
"""Writes /verif/MANIFEST.json from the table below (kept in one place so that it is always valid)."""
import json, os, sys
sys.path.insert(0, os.path.dirname(os.path.abspath(__file__)))
from manifest_table import CHECKS, NOT_APPLICABLE, HOOK_COMMITS, ENGINES, NOTES

VERIF = os.path.dirname(os.path.dirname(os.path.abspath(__file__)))
m = {
    "version": 1,
    "setup_cmd": "python3 lib/build.py rel inproc",
    "hooks": {
        "guard": "--cfg fastpasta_verif",
        "enable": "RUSTFLAGS=\"--cfg fastpasta_verif\" cargo build --release -p fastpasta --offline --target-dir /verif/.build/rel --config profile.release.lto=false --config profile.release.codegen-units=16 (lib/build.py); hooks are inert unless FASTPASTA_VERIF_SCHED / FASTPASTA_VERIF_TRACE are set",
        "baseline_off_cmd": "cd /repo && cargo test --workspace --no-fail-fast --offline",
        "source_commits": HOOK_COMMITS,
        "add_only": True,
    },
    "engines": ENGINES,
    "checks": [],
    "notes": NOTES,
    "not_applicable": NOT_APPLICABLE,
}
for c in CHECKS:
    pid = c["id"]
    m["checks"].append({
        "property_id": pid,
        "quick_cmd": "./check %s --tier quick" % pid,
        "thorough_cmd": "./check %s --tier thorough" % pid,
        "evidence_file": "/verif/evidence/%s.json" % pid,
        "replay_cmd_template": "./check %s --replay {path}" % pid,
        "engine": c.get("engine", "cli-monitor"),
        "level_claimed": {"category": c["level"], "text": c["text"], "design_ref": "DESIGN.md §3 " + pid},
        "level_note": c["note"],
        "technique": c["technique"],
    })
with open(os.path.join(VERIF, "MANIFEST.json"), "w") as f:
    json.dump(m, f, indent=1)
print("MANIFEST.json: %d checks, %d not_applicable" % (len(m["checks"]), len(NOT_APPLICABLE)))
