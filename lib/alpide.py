"""Independent ALPIDE lane-data encoder (ALPIDE data format + ITS readout unit protocol extensions).

  CHIP_HEADER      1010<chip id 3:0> <bunch counter 10:3>
  CHIP_EMPTY_FRAME 1110<chip id 3:0> <bunch counter 10:3>
  CHIP_TRAILER     1011<readout flags 3:0>
  REGION_HEADER    110<region id 4:0>
  DATA_SHORT       01<encoder id 3:0><addr 9:0>                      (2 bytes)
  DATA_LONG        00<encoder id 3:0><addr 9:0> 0<hit map 6:0>       (3 bytes)
  BUSY_ON 0xF1? / BUSY_OFF 0xF0?  (single byte 1111_000x), padding 0x00 between chip frames
"""


class Chip:
    def __init__(self, chip_id, bc, empty=False, flags=0, regions=None, busy=()):
        self.chip_id, self.bc, self.empty, self.flags = chip_id & 0xF, bc & 0xFF, empty, flags & 0xF
        self.regions = regions if regions is not None else []   # list of (region_id, [hit, ...]); hit = bytes (2 or 3)
        self.busy = list(busy)  # positions (word index) where a busy byte is inserted: list of (index, byte)

    def encode(self):
        if self.empty:
            return bytes([0xE0 | self.chip_id, self.bc])
        words = [bytes([0xA0 | self.chip_id, self.bc])]
        for rid, hits in self.regions:
            words.append(bytes([0xC0 | (rid & 0x1F)]))
            words.extend(hits)
        words.append(bytes([0xB0 | self.flags]))
        out = bytearray()
        busy = dict(self.busy)
        for i, w in enumerate(words):
            if i in busy and i > 0:
                out.append(busy[i])
            out += w
        return bytes(out)


def short_hit(enc, addr):
    v = 0x4000 | (enc & 0xF) << 10 | (addr & 0x3FF)
    return bytes([v >> 8, v & 0xFF])


def long_hit(enc, addr, hitmap):
    v = (enc & 0xF) << 10 | (addr & 0x3FF)
    return bytes([v >> 8, v & 0xFF, hitmap & 0x7F])


def random_hits(rng, nasty=False, many=False):
    """Random region/hit content. nasty: second/third bytes chosen among values that look like
    chip headers / trailers / empty frames / APEs / 0xFF when (wrongly) interpreted as word starts."""
    regions = []
    nreg = rng.choice([0, 1, 1, 2, 3, 5]) if not many else rng.choice([24, 32])
    rid = 0
    for _ in range(nreg):
        rid = min(31, rid + (rng.randint(0, 6) if not many else 0))
        hits = []
        for _ in range(rng.choice([0, 1, 2, 4, 9]) if not many else rng.choice([20, 45, 70])):
            if nasty:
                lo = rng.choice([0xA0, 0xA5, 0xAF, 0xB0, 0xB8, 0xBF, 0xE0, 0xE7, 0xEF, 0xF4, 0xF5, 0xFA, 0xFF, 0xC0,
                                 0xDF, 0xF0, 0xF1, 0x00])
            else:
                lo = rng.randint(0, 255)
            enc, hi2 = rng.randint(0, 15), rng.randint(0, 3)
            if rng.random() < 0.5:
                hits.append(bytes([0x40 | enc << 2 | hi2, lo]))
            else:
                hm = rng.choice([0x7F, 0x00, 0x20, 0x2F, 0x30, 0x3F, 0x60, 0x6F, 0x74, 0x70, 0x71, 0x40]) if nasty \
                    else rng.randint(0, 0x7F)
                hits.append(bytes([enc << 2 | hi2, lo, hm]))
        regions.append((rid, hits))
        rid += 1
        if rid > 31:
            break
    return regions


def lane_bytes(chips, pad_between=0, pad_end=0):
    out = bytearray()
    for i, c in enumerate(chips):
        out += c.encode()
        if i + 1 < len(chips):
            out += bytes(pad_between)
    out += bytes(pad_end)
    return bytes(out)


def to_data_words(ident, lane_data):
    """Cut a lane's byte stream into 9-byte chunks (zero padded) and tag them with the lane identifier."""
    words = []
    for i in range(0, len(lane_data), 9):
        chunk = lane_data[i:i + 9]
        chunk = chunk + bytes(9 - len(chunk))
        words.append(chunk + bytes([ident]))
    return words


def trailer_flag_counts(flags_list):
    """Reference accounting of the readout flags of chip trailers (ALPIDE manual: 1000 busy violation,
    1100 data overrun, 1110 transmission in fatal; otherwise bit2 flushed incomplete, bit1 strobe extended,
    bit0 busy transition)."""
    c = dict(chip_trailers_seen=0, busy_violations=0, data_overrun=0, transmission_in_fatal=0,
             flushed_incomplete=0, strobe_extended=0, busy_transitions=0)
    for fl in flags_list:
        c["chip_trailers_seen"] += 1
        if fl == 0b1000:
            c["busy_violations"] += 1
        elif fl == 0b1100:
            c["data_overrun"] += 1
        elif fl == 0b1110:
            c["transmission_in_fatal"] += 1
        else:
            c["flushed_incomplete"] += (fl >> 2) & 1
            c["strobe_extended"] += (fl >> 1) & 1
            c["busy_transitions"] += fl & 1
    return c
