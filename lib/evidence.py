"""Evidence writer (EVIDENCE.schema.json) and result object shared by all property monitors."""
import json, os
from common import EVIDENCE


class Result:
    def __init__(self, prop, tier, seed, level):
        self.prop, self.tier, self.seed, self.level = prop, tier, seed, level
        self.evaluations = 0
        self.nontrivial = set()      # keys of distinct non-trivial cases
        self.rule = ""
        self.samples = []
        self.extra = {}              # more coverage keys
        self.assumptions = []
        self.violations = []         # list of (signature, what, replay_path)
        self.known = []              # list of (signature, what)
        self.inconclusive = []       # list of strings
        self.min_nontrivial = 2
        self.exhaustive = None

    def sample(self, s, cap=6):
        if len(self.samples) < cap:
            self.samples.append(s)

    def count(self, key, n=1):
        self.extra[key] = self.extra.get(key, 0) + n

    def violation(self, sig, what, replay):
        self.violations.append((sig, what, replay))

    def write(self, wall_s):
        cov = dict(self.extra)
        cov.update(evaluations=int(self.evaluations), distinct_nontrivial=len(self.nontrivial), rule=self.rule,
                   samples=self.samples[:8] or ["<none>"], inconclusive=self.inconclusive[:20],
                   inconclusive_count=len(self.inconclusive),
                   known_findings=[{"sig": s, "what": w} for s, w in self.known])
        if self.exhaustive is not None:
            cov["exhaustive"] = bool(self.exhaustive)
        ev = dict(property_id=self.prop, tier=self.tier, seed=int(self.seed), level=self.level, coverage=cov,
                  assumptions=self.assumptions, wall_s=float(wall_s), violations=len(self.violations))
        if os.environ.get("VERIF_COVERAGE") or os.environ.get("VERIF_MUTANT_RUN"):  # measurement run (tools/coverage.py) or a run against a deliberately broken tree (lib/mutant.py): evidence files are left alone
            return ev
        os.makedirs(EVIDENCE, exist_ok=True)
        tmp = os.path.join(EVIDENCE, self.prop + ".json.tmp")
        with open(tmp, "w") as f:
            json.dump(ev, f, indent=1, default=str)
        os.replace(tmp, os.path.join(EVIDENCE, self.prop + ".json"))
        return ev
