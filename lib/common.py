"""Shared helpers: paths, seeds, bounded parallel map, scratch directories."""
import os, sys, random, shutil, time, json, hashlib, threading
from concurrent.futures import ThreadPoolExecutor

VERIF = os.path.dirname(os.path.dirname(os.path.abspath(__file__)))
REPO = os.environ.get("VERIF_REPO", "/repo")
BUILD = os.path.join(VERIF, ".build")
WORK = os.path.join(VERIF, ".work")
REPLAYS = os.path.join(VERIF, "replays")
EVIDENCE = os.path.join(VERIF, "evidence")
FINDINGS = os.path.join(VERIF, "findings")
NCPU = min(16, os.cpu_count() or 4)


def base_seed():
    try:
        return int(os.environ.get("VERIF_SEED", "1"))
    except ValueError:
        return 1


def case_seed(seed, case, salt=0):
    return (seed * 1_000_003 + case * 7919 + salt * 104_729) & 0x7FFFFFFFFFFF


def rng_for(seed, case, salt=0):
    return random.Random(case_seed(seed, case, salt))


def scratch(name):
    """Fresh scratch directory under .work (removed first if it exists)."""
    d = os.path.join(WORK, name)
    shutil.rmtree(d, ignore_errors=True)
    os.makedirs(d, exist_ok=True)
    return d


def rm(path):
    shutil.rmtree(path, ignore_errors=True)


class Inconclusive(Exception):
    """raised by a case that could not be decided (watchdog fired, tool missing); never a violation"""


INCONCLUSIVE = []      # descriptions of undecided cases; `check` moves them into the evidence


def pmap(fn, items, workers=NCPU):
    """Run fn over items on a thread pool (the work is in subprocesses); keeps order.
    A case that raises Inconclusive is dropped from the results and recorded in INCONCLUSIVE."""
    items = list(items)
    if not items:
        return []
    skip = object()

    def safe(x):
        try:
            return fn(x)
        except Inconclusive as e:
            INCONCLUSIVE.append(str(e))
            return skip
    with ThreadPoolExecutor(max_workers=workers) as ex:
        return [r for r in ex.map(safe, items) if r is not skip]


def sha(data):
    return hashlib.sha1(data).hexdigest()[:16]


def write_file(path, data):
    os.makedirs(os.path.dirname(path), exist_ok=True)
    mode = "wb" if isinstance(data, (bytes, bytearray)) else "w"
    with open(path, mode) as f:
        f.write(data)


def save_replay(prop, name, files, info):
    """Write a replay directory: files = {relative name: bytes|str}; info = json-able dict."""
    d = os.path.join(REPLAYS, prop, name)
    shutil.rmtree(d, ignore_errors=True)
    os.makedirs(d, exist_ok=True)
    for rel, data in files.items():
        write_file(os.path.join(d, rel), data)
    write_file(os.path.join(d, "info.json"), json.dumps(info, indent=1, default=str))
    return d


class Stopwatch:
    def __init__(self):
        self.t0 = time.time()

    def s(self):
        return round(time.time() - self.t0, 2)


def log(*a):
    print(*a, file=sys.stderr, flush=True)
