"""Independent encoders / decoders of ITS payload words (80 bit, byte 9 = identifier).

Bit layouts from the ITS data format as quoted in the repository's word struct comments:
  IHW  id 0xE0: active_lanes 27:0, reserved 71:28
  TDH  id 0xE8: trigger_type 11:0, internal 12, no_data 13, continuation 14, reserved 15,
                trigger_bc 27:16, reserved 31:28, trigger_orbit 63:32, reserved 71:64
  TDT  id 0xF0: lane_status 55:0, reserved 60:56, timeout_in_idle 61, timeout_start_stop 62, timeout_to_start 63,
                packet_done 64, transmission_timeout 65, reserved 66, lane_starts_violation 67, reserved 71:68
  DDW0 id 0xE4: lane_status 55:0, reserved 63:56, reserved 64, transmission_timeout 65, reserved 66,
                lane_starts_violation 67, index 71:68
  CDW  id 0xF8: user_fields 47:0, index 71:48
  data words: IB id 0x20|lane (lane 0..8); OB id 0x40|connector<<3|input (input 0..6)
"""
IHW, TDH, TDT, DDW0, CDW = 0xE0, 0xE8, 0xF0, 0xE4, 0xF8


def _w(value, ident):
    return (value & ((1 << 72) - 1)).to_bytes(9, "little") + bytes([ident & 0xFF])


def ihw(active_lanes, reserved=0, ident=IHW):
    return _w((active_lanes & 0xFFFFFFF) | (reserved << 28), ident)


def tdh(trigger_type=0, internal=0, no_data=0, cont=0, bc=0, orbit=0, res15=0, res31_28=0, res71_64=0, ident=TDH):
    v = (trigger_type & 0xFFF) | (internal & 1) << 12 | (no_data & 1) << 13 | (cont & 1) << 14 | (res15 & 1) << 15
    v |= (bc & 0xFFF) << 16 | (res31_28 & 0xF) << 28 | (orbit & 0xFFFFFFFF) << 32 | (res71_64 & 0xFF) << 64
    return _w(v, ident)


def tdt(packet_done=1, lane_status=0, timeout_to_start=0, timeout_start_stop=0, timeout_in_idle=0,
        transmission_timeout=0, lane_starts_violation=0, res60_56=0, res66=0, res71_68=0, ident=TDT):
    v = (lane_status & ((1 << 56) - 1)) | (res60_56 & 0x1F) << 56 | (timeout_in_idle & 1) << 61
    v |= (timeout_start_stop & 1) << 62 | (timeout_to_start & 1) << 63 | (packet_done & 1) << 64
    v |= (transmission_timeout & 1) << 65 | (res66 & 1) << 66 | (lane_starts_violation & 1) << 67 | (res71_68 & 0xF) << 68
    return _w(v, ident)


def ddw0(lane_status=0, transmission_timeout=0, lane_starts_violation=0, index=0, res63_56=0, res64=0, res66=0,
         ident=DDW0):
    v = (lane_status & ((1 << 56) - 1)) | (res63_56 & 0xFF) << 56 | (res64 & 1) << 64 | (transmission_timeout & 1) << 65
    v |= (res66 & 1) << 66 | (lane_starts_violation & 1) << 67 | (index & 0xF) << 68
    return _w(v, ident)


def cdw(user_fields=0, index=0, ident=CDW):
    return _w((user_fields & ((1 << 48) - 1)) | (index & 0xFFFFFF) << 48, ident)


def data_word(ident, nine):
    assert len(nine) == 9
    return bytes(nine) + bytes([ident])


def ib_id(lane):
    return 0x20 | lane


def ob_id(connector, inp):
    return 0x40 | (connector & 3) << 3 | (inp & 7)


def ob_lane(ident):
    """OB lane number 0..27 = 7*connector + input."""
    return 7 * ((ident >> 3) & 3) + (ident & 7)


DATA_IDS = set(range(0x20, 0x29)) | set(range(0x40, 0x47)) | set(range(0x48, 0x4F)) | set(range(0x50, 0x57)) | set(
    range(0x58, 0x5F))


def is_data_id(i):
    return i in DATA_IDS


# lane sets (word identifiers) carried by one GBT uplink (FEE id) of a stave
IB_GROUPS = [[0x20, 0x21, 0x22], [0x23, 0x24, 0x25], [0x26, 0x27, 0x28]]
ML_GROUPS = [[0x43, 0x44, 0x45, 0x46, 0x48, 0x49, 0x4A, 0x4B], [0x53, 0x54, 0x55, 0x56, 0x58, 0x59, 0x5A, 0x5B]]
OL_GROUPS = [list(range(0x40, 0x47)) + list(range(0x48, 0x4F)), list(range(0x50, 0x57)) + list(range(0x58, 0x5F))]


def barrel(layer):
    return "IB" if layer <= 2 else ("ML" if layer <= 4 else "OL")


def lane_groups(layer):
    return {"IB": IB_GROUPS, "ML": ML_GROUPS, "OL": OL_GROUPS}[barrel(layer)]


def lane_number(ident):
    return (ident & 0x1F) if (ident >> 5) == 1 else ob_lane(ident)


def active_mask(idents):
    m = 0
    for i in idents:
        m |= 1 << lane_number(i)
    return m


def classify_id(i):
    if i in DATA_IDS:
        return "DATA"
    return {IHW: "IHW", TDH: "TDH", TDT: "TDT", DDW0: "DDW", CDW: "CDW"}.get(i, "UNKNOWN")


# --- decoding helpers used by the view oracle -------------------------------------------------
def tdh_fields(w):
    v = int.from_bytes(w[:9], "little")
    return dict(trigger_type=v & 0xFFF, internal=(v >> 12) & 1, no_data=(v >> 13) & 1, cont=(v >> 14) & 1,
                bc=(v >> 16) & 0xFFF, orbit=(v >> 32) & 0xFFFFFFFF)


def lane_status_class(w):
    """Fatal > Error > Warning > '-' over the 28 two-bit lane status fields (bits 55:0)."""
    v = int.from_bytes(w[:7], "little")
    fatal = err = warn = False
    for lane in range(28):
        s = (v >> (2 * lane)) & 3
        if s == 3:
            fatal = True
        if s & 2:
            err = True
        if s & 1:
            warn = True
    return "Fatal" if fatal else ("Error" if err else ("Warning" if warn else "-"))
