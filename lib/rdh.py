"""Independent RDH (CRU, v6/v7) encoder / decoder and chain walker.

Layout (64 bytes, little endian), from the ALICE RDH specification as quoted in the
repository's struct comments:
  0 header_id  1 header_size  2..3 fee_id  4 priority_bit  5 system_id  6..7 reserved0
  8..9 offset_to_next  10..11 memory_size  12 link_id  13 packet_counter  14..15 cru_id[11:0] dw[15:12]
  16..19 bc[11:0] reserved[31:12]  20..23 orbit
  24..31 data_format[7:0] reserved[63:8]
  32..35 trigger_type  36..37 pages_counter  38 stop_bit  39 reserved
  40..47 reserved1
  48..51 detector_field  52..53 par_bit  54..55 reserved
  56..63 reserved2
"""
import struct

FIELDS = ["header_id", "header_size", "fee_id", "priority_bit", "system_id", "rdh0_reserved",
          "offset_to_next", "memory_size", "link_id", "packet_counter", "cru_id", "dw",
          "bc", "rdh1_reserved", "orbit", "data_format", "df_reserved",
          "trigger_type", "pages_counter", "stop_bit", "rdh2_reserved", "reserved1",
          "detector_field", "par_bit", "rdh3_reserved", "reserved2"]

DEFAULT = dict(header_id=7, header_size=0x40, fee_id=0, priority_bit=0, system_id=32, rdh0_reserved=0,
               offset_to_next=64, memory_size=64, link_id=0, packet_counter=0, cru_id=0, dw=0,
               bc=0, rdh1_reserved=0, orbit=0, data_format=2, df_reserved=0,
               trigger_type=0x6803, pages_counter=0, stop_bit=0, rdh2_reserved=0, reserved1=0,
               detector_field=0, par_bit=0, rdh3_reserved=0, reserved2=0)


def pack(f):
    g = dict(DEFAULT)
    g.update(f)
    return struct.pack(
        "<BBHBBH HHBBH II Q IHBB Q IHH Q",
        g["header_id"] & 0xFF, g["header_size"] & 0xFF, g["fee_id"] & 0xFFFF, g["priority_bit"] & 0xFF,
        g["system_id"] & 0xFF, g["rdh0_reserved"] & 0xFFFF,
        g["offset_to_next"] & 0xFFFF, g["memory_size"] & 0xFFFF, g["link_id"] & 0xFF, g["packet_counter"] & 0xFF,
        ((g["cru_id"] & 0xFFF) | ((g["dw"] & 0xF) << 12)),
        ((g["bc"] & 0xFFF) | ((g["rdh1_reserved"] & 0xFFFFF) << 12)), g["orbit"] & 0xFFFFFFFF,
        ((g["data_format"] & 0xFF) | ((g["df_reserved"] & 0xFFFFFFFFFFFFFF) << 8)),
        g["trigger_type"] & 0xFFFFFFFF, g["pages_counter"] & 0xFFFF, g["stop_bit"] & 0xFF, g["rdh2_reserved"] & 0xFF,
        g["reserved1"] & 0xFFFFFFFFFFFFFFFF,
        g["detector_field"] & 0xFFFFFFFF, g["par_bit"] & 0xFFFF, g["rdh3_reserved"] & 0xFFFF,
        g["reserved2"] & 0xFFFFFFFFFFFFFFFF)


def unpack(b):
    assert len(b) >= 64
    (hid, hsz, fee, prio, sysid, r0, off, mem, link, pc, crudw, bcres, orbit, dfres, trg, pages, stop, r2, res1,
     det, par, r3, res2) = struct.unpack("<BBHBBH HHBBH II Q IHBB Q IHH Q", bytes(b[:64]))
    return dict(header_id=hid, header_size=hsz, fee_id=fee, priority_bit=prio, system_id=sysid, rdh0_reserved=r0,
                offset_to_next=off, memory_size=mem, link_id=link, packet_counter=pc, cru_id=crudw & 0xFFF,
                dw=crudw >> 12, bc=bcres & 0xFFF, rdh1_reserved=bcres >> 12, orbit=orbit,
                data_format=dfres & 0xFF, df_reserved=dfres >> 8, trigger_type=trg, pages_counter=pages,
                stop_bit=stop, rdh2_reserved=r2, reserved1=res1, detector_field=det, par_bit=par,
                rdh3_reserved=r3, reserved2=res2)


def fee_id(layer, stave, fiber=0):
    return ((layer & 7) << 12) | ((fiber & 3) << 8) | (stave & 0x3F)


def fee_layer(fee):
    return (fee >> 12) & 7


def fee_stave(fee):
    return fee & 0x3F


STAVES_PER_LAYER = [12, 16, 20, 24, 30, 42, 48]


class Packet:
    __slots__ = ("offset", "f", "raw", "payload_off", "payload_len", "complete")

    def __init__(self, offset, f, raw, payload_off, payload_len, complete=True):
        self.offset = offset
        self.f = f
        self.raw = raw
        self.payload_off = payload_off
        self.payload_len = payload_len
        self.complete = complete


def walk(data, strict=True):
    """Independent walk of the RDH chain. Returns the list of packets.

    strict: stop (as "ill-framed") at the first RDH whose offset_to_next is outside 64..10064 or that does
    not fit; otherwise packets flagged incomplete are returned for a truncated tail."""
    pkts = []
    pos = 0
    n = len(data)
    while pos + 64 <= n:
        f = unpack(data[pos:pos + 64])
        off = f["offset_to_next"]
        if not (64 <= off <= 10064):
            break
        plen = (f["memory_size"] - 64) & 0xFFFF
        complete = pos + 64 + plen <= n and pos + off <= n
        pkts.append(Packet(pos, f, bytes(data[pos:pos + 64]), pos + 64, plen, complete))
        if not complete and strict:
            break
        pos += off
    return pkts


def matches(f, kind, value):
    if kind == "link":
        return f["link_id"] == value
    if kind == "fee":
        return f["fee_id"] == value
    if kind == "stave":
        return (f["fee_id"] & 0x703F) == (value & 0x703F)
    raise ValueError(kind)


def filter_args(kind, value):
    if kind == "link":
        return ["-f", str(value)]
    if kind == "fee":
        return ["-F", str(value)]
    if kind == "stave":
        return ["-s", "L%d_%d" % (fee_layer(value), fee_stave(value))]
    raise ValueError(kind)


# Display of an RDH row in `view rdh -d` and in error context rows: 14 columns
def row_fields(f):
    """The 14 values shown per RDH row, as strings in display order."""
    return [str(f["header_id"]), str(f["header_size"]), str(f["fee_id"]), str(f["system_id"]),
            str(f["offset_to_next"]), str(f["link_id"]), str(f["packet_counter"]), str(f["bc"]),
            "0x%x" % f["orbit"], str(f["data_format"]), "0x%x" % f["trigger_type"], str(f["pages_counter"]),
            str(f["stop_bit"]), "0x%x" % f["detector_field"]]
