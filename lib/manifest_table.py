HOOK_COMMITS = ["f8c88e6", "f9e5439"]
ENGINES = [
    {"name": "cli-monitor", "path": "/verif/lib", "kind_free_text": "python3 orchestrator: generators with ground truth, runs the real release binary built from /repo (hooks on), parses stderr / statistics file / report / views / output bytes / exit status and compares with independent oracles",
     "serves_properties": []},
    {"name": "fp_inproc", "path": "/verif/harness", "kind_free_text": "Rust driver linked against /repo's crates: drives the real library functions in-process against small reference models (FSM product, word predicates, RDH rules, payload cutter, scanner)",
     "serves_properties": []},
]
NOTES = "Runtime monitoring only: every verdict comes from an oracle observing executions of the real code. See DESIGN.md."
ALL = ["C%02d" % i for i in range(1, 21)]

def C(id, level, technique, text, note, engine="cli-monitor"):
    return dict(id=id, level=level, technique=technique, text=text, note=note, engine=engine)


CLI = "runtime monitoring: oracle over observed runs of the release binary"
CHECKS = [
    C("C01", "exploration", CLI + " on grammar-generated conforming streams",
      "Seeded grammar generator of conforming ITS streams (all barrels, formats 0/2, RDH v6/v7, split packets, no-data runs, PhT, CDW, padding 0..15, merges, batch multiples) run through all five check modes with option rotation; any error on stderr / in the statistics file / report, or a non-zero exit, is a violation. Held on the sampled streams; feature coverage is measured and a run that misses grammar features is inconclusive.",
      "The grammar is my transcription of doc/checks_list.md, the state diagram and the shipped test files; sampled, not exhaustive."),
    C("C02", "fault_enumeration", CLI + " under an enumerated fault catalogue",
      "50 catalogue entries (one or more per documented rule) applied at first/middle/last applicable position of a random link of fresh conforming streams; in every mode where the rule is active a message of the rule's code family must exist at the offending offset (statistics file and stderr) and the exit status must be the configured -E value; purely stateful faults must leave check sanity silent.",
      "Existence oracle (cascades ignored); RDH0 faults not placed on the first RDH of the input; positions sampled per run (3 per entry quick, 36 thorough)."),
    C("C03", "exploration", CLI + " + in-process driver of the real InputScanner",
      "G-frame streams with arbitrary header values: rows of view rdh / data view, rdh_stats, writer output and in-process (rdh, payload, offset) triples compared with an independent chain walk, over file/stdin x payload loaded/skipped x all filter kinds, counts around the 100-packet batch.",
      "Well-framed, recognised input with known system ids; sampled inputs."),
    C("C07", "exploration", CLI + ": every message decoded back against the input bytes",
      "Every error message of runs on arbitrary / corrupted well-framed content: leading offset inside the input and at an RDH or word slot start, quoted 10 bytes equal to the bytes at the offset, `current:`/`previous:` rows equal to the decoded headers; all check modes, with filters, multi-link.",
      "Only inputs whose payload layout agrees with the header's data format (the others are finding D8)."),
    C("C08", "exploration", CLI + ": reference filter over the chain walk",
      "Output bytes (file and stdout, from file and pipe) compared byte for byte with the reference filter for link/FEE/stave filters incl. absent values; union over all values partitions the input; output re-walked and re-filtered; Filter Stats count compared.",
      "Sampled streams; re-filtering only when the first matching packet is itself recognisable."),
    C("C09", "exploration", "in-process lockstep of the real FSM/validator with a table model of the documented diagram",
      "Breadth-first closure of the product (implementation state id via hook H3 x diagram state) over a 21-class word alphabet - complete for that alphabet: every transition taken, every (state, illegal word) pair must be reported at the word - then millions of random words in long histories.",
      "Diagram transcription is mine (10 states); TDT directly after a data-announcing TDH treated as documented ambiguity.", "fp_inproc"),
    C("C11", "exploration", "in-process comparison of the real predicates with reference predicates from the bit layouts",
      "Per status word type all 256 identifiers x {zero, 72 single bits, 2556 bit pairs, all ones} (complete) plus millions of random bodies; data words 256 identifiers x lane masks.",
      "Reference predicates are my transcription of the bit layouts; 2^80 space sampled beyond the structured part.", "fp_inproc"),
    C("C14", "exploration", CLI + ": statistics vs independent counts",
      "Statistics file (JSON and TOML) and report rows of 9 modes x filters compared with counts from the chain walk / generator ground truth (visited, matching, payload, links, FEE ids, versions, HBFs, layer/staves, 20 trigger counters, error totals and codes, ALPIDE flags).",
      "One system id per stream; no error cap / fatal input."),
    C("C19", "exploration", CLI + ": view rows decoded back; styled vs unstyled; checker classification in-process",
      "Every row of the three views compared with independent decoding of the bytes at its offset (RDH attributes, TDH/TDT/DDW flags), styled vs unstyled equality, and on conforming streams the shown word kind vs the kind assigned by the real cutter+FSM.",
      "Words with known identifiers; sampled streams."),
]
done = {c["id"] for c in CHECKS}
NOT_APPLICABLE = [{"property_id": p, "reason": "monitor not registered yet (work in progress, see DESIGN.md §3)"} for p in ALL if p not in done]
