HOOK_COMMITS = ["f8c88e6", "f9e5439"]
ENGINES = [
    {"name": "cli-monitor", "path": "/verif/lib", "kind_free_text": "python3 orchestrator: generators with ground truth, runs the real release binary built from /repo (hooks on), parses stderr / statistics file / report / views / output bytes / exit status and compares with independent oracles",
     "serves_properties": []},
    {"name": "fp_inproc", "path": "/verif/harness", "kind_free_text": "Rust driver linked against /repo's crates: drives the real library functions in-process against small reference models (FSM product, word predicates, RDH rules, payload cutter, scanner)",
     "serves_properties": []},
]
NOTES = "Runtime monitoring only: every verdict comes from an oracle observing executions of the real code. See DESIGN.md."
ALL = ["C%02d" % i for i in range(1, 21)]
CHECKS = []
NOT_APPLICABLE = [{"property_id": p, "reason": "monitor not built yet (work in progress, see DESIGN.md §3)"} for p in ALL]
