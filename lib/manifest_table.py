HOOK_COMMITS = ["f8c88e6", "f9e5439"]
ENGINES = [
    {"name": "cli-monitor", "path": "/verif/lib", "kind_free_text": "python3 orchestrator: generators with ground truth, runs the real release binary built from /repo (hooks on), parses stderr / statistics file / report / views / output bytes / exit status and compares with independent oracles",
     "serves_properties": []},
    {"name": "fp_inproc", "path": "/verif/harness", "kind_free_text": "Rust driver linked against /repo's crates: drives the real library functions in-process against small reference models (FSM product, word predicates, RDH rules, payload cutter, scanner)",
     "serves_properties": []},
]
NOTES = "Runtime monitoring only: every verdict comes from an oracle observing executions of the real code. See DESIGN.md."
ALL = ["C%02d" % i for i in range(1, 21)]

def C(id, level, technique, text, note, engine="cli-monitor"):
    return dict(id=id, level=level, technique=technique, text=text, note=note, engine=engine)


CLI = "runtime monitoring: oracle over observed runs of the release binary"
CHECKS = [
    C("C01", "exploration", CLI + " on grammar-generated conforming streams",
      "Seeded grammar generator of conforming ITS streams (all barrels, formats 0/2, RDH v6/v7, split packets, no-data runs, PhT, CDW, padding 0..15, merges, batch multiples) run through all five check modes with option rotation; any error on stderr / in the statistics file / report, or a non-zero exit, is a violation. Held on the sampled streams; feature coverage is measured and a run that misses grammar features is inconclusive.",
      "The grammar is my transcription of doc/checks_list.md, the state diagram and the shipped test files; sampled, not exhaustive."),
    C("C02", "fault_enumeration", CLI + " under an enumerated fault catalogue",
      "63 catalogue entries (one or more per documented rule) applied at first/middle/last applicable position of a random link of fresh conforming streams; in every mode where the rule is active a message of the rule's code family must exist at the offending offset (statistics file and stderr) and the exit status must be the configured -E value; purely stateful faults must leave check sanity silent.",
      "Existence oracle (cascades ignored); RDH0 faults not placed on the first RDH of the input; positions sampled per run (3 per entry quick, 180 thorough); 63 entries incl. explicit boundary values (trigger bits 15/26, detector-field bits 12/23, bc 0xdec, stave 48) and one entry per place where a packet can start."),
    C("C03", "exploration", CLI + " + in-process driver of the real InputScanner",
      "G-frame streams with arbitrary header values: rows of view rdh / data view, rdh_stats, writer output and in-process (rdh, payload, offset) triples compared with an independent chain walk, over file/stdin x payload loaded/skipped x all filter kinds, counts around the 100-packet batch. Backpressure cases: 30 000 packets while the consumer of the reader's batches (view, writer, analysis) is stalled 300-450 ms several times by an H1 schedule.",
      "Well-framed, recognised input with known system ids; sampled inputs."),
    C("C07", "exploration", CLI + ": every message decoded back against the input bytes",
      "Every error message of runs on arbitrary / corrupted well-framed content: leading offset inside the input and at an RDH or word slot start, quoted 10 bytes equal to the bytes at the offset, `current:`/`previous:` rows equal to the decoded headers; all check modes, with filters, multi-link. Inputs include words of 0xFF in the middle of a payload and pages up to the 10 000-byte limit.",
      "Only inputs whose payload layout agrees with the header's data format (the others are finding D8)."),
    C("C08", "exploration", CLI + ": reference filter over the chain walk",
      "Output bytes (file and stdout, from file and pipe) compared byte for byte with the reference filter for link/FEE/stave filters incl. absent values; union over all values partitions the input; output re-walked and re-filtered; Filter Stats count compared. Near-alias identifiers (one bit inside / outside the compared field); one 70 000-packet case and one 1.2-million-packet case (> 2^20 matching packets) per run.",
      "Sampled streams; re-filtering only when the first matching packet is itself recognisable."),
    C("C09", "exploration", "in-process lockstep of the real FSM/validator with a table model of the documented diagram",
      "Breadth-first closure of the product (implementation state id via hook H3 x diagram state) over a 21-class word alphabet - complete for that alphabet: every transition taken, every (state, illegal word) pair must be reported at the word - then millions of random words in long histories.",
      "Diagram transcription is mine (10 states); TDT directly after a data-announcing TDH treated as documented ambiguity.", "fp_inproc"),
    C("C11", "exploration", "in-process comparison of the real predicates with reference predicates from the bit layouts",
      "Per status word type all 256 identifiers x {zero, 72 single bits, 2556 bit pairs, all ones} (complete) plus millions of random bodies; data words 256 identifiers x lane masks.",
      "Reference predicates are my transcription of the bit layouts; 2^80 space sampled beyond the structured part.", "fp_inproc"),
    C("C14", "exploration", CLI + ": statistics vs independent counts",
      "Statistics file (JSON and TOML) and report rows of 9 modes x filters compared with counts from the chain walk / generator ground truth (visited, matching, payload, links, FEE ids, versions, HBFs, layer/staves, 20 trigger counters, error totals and codes, ALPIDE flags). One 140 000-packet / 17.7 MB-payload case (all counters > 2^16, bytes > 2^24) and one 4.35 GB pipe (bytes and positions > 2^32) per run.",
      "One system id per stream; no error cap / fatal input."),
    C("C19", "exploration", CLI + ": view rows decoded back; styled vs unstyled; checker classification in-process",
      "Every row of the three views compared with independent decoding of the bytes at its offset (RDH attributes, TDH/TDT/DDW flags), styled vs unstyled equality, and on conforming streams the shown word kind vs the kind assigned by the real cutter+FSM.",
      "Words with known identifiers; sampled streams."),
    C("C04", "exploration", CLI + " + AddressSanitizer, valgrind memcheck and Miri (thorough)",
      "Random bytes, structure-aware and byte-level mutants of generated streams and of the 18 shipped files, plus directed inputs for every panic site known to be reachable from input, through 9 modes x options x {file, pipe}: any terminating signal, panic text, exit status outside {0,1,N}, sanitizer report, logical no-progress state or CPU time beyond a bound proportional to the input size is a violation. Thorough: 150k executions of the exact shipped profile, 30k under ASan, 400 under memcheck, the unsafe sites under Miri.",
      "Sampled inputs; hang decided by /proc (threads asleep, no CPU progress), wall clock only triggers the inspection."),
    C("C05", "exploration", CLI + " under seeded schedule perturbation (hook H1), arrival orders measured with hook H2; ThreadSanitizer build in the thorough tier",
      "Multi-link inputs with several errors at the same offset and > 20 errors, each run K times (12 quick / 80 thorough) under distinct perturbation schedules incl. stalled validators / stalled collector; stderr error order, stdout, statistics bytes and exit status must equal the unperturbed run. A case only counts if >= 3 distinct pre-sort arrival orders were observed. Stratified variants: input ending inside the last payload whose RDH also has errors, link filter + ignored -o on > 100 matching packets, storms of 6000 (with context) / 20 000 (muted) errors; stalls also of the statistics forwarder, analysis thread and reader.",
      "Perturbation only at the existing hand-off points; explores many, not all, interleavings."),
    C("C06", "exploration", CLI + " + in-process single-threaded pass: per-link normalised error lists compared across layouts",
      "Multi-link streams (link ids 0..255 incl. ids aliasing modulo 16/32/128; in stave mode several FEE ids behind one link id) with 0..10 mutations: per-link error lists, normalised to (packet index in link, delta), compared between the stream as generated, two re-merges, the extracted single-link file, --filter-link/-fee/-its-stave runs and one sequential pass through a real LinkValidator. Planted situations: unknown system id on non-first packets incl. global index 100k, over-padded payloads after split frames on several links, a link silent for 3700 packets inside one of its HBFs, > 100 consecutive ~9 kB pages; a fatal error on a stream whose offset chain is intact is a violation.",
      "Link / FEE identifiers are not mutated; extracted files only compared when recognised by the start-up gate."),
    C("C10", "exploration", "in-process bit-flip sweep of the real RDH validators + " + CLI + " on RDH-only files, against a reference model of the documented rules",
      "In-process: every single-bit deviation of all 512 header bits at 5 positions of conforming sequences x both validator configurations, boundary values, random walks; CLI: RDH-only files with injected faults in 4 modes: the sets of offsets with [E10] / [E11] must equal the reference model's.",
      "Reference model is my transcription of the documented rules (bc <= 0xdeb, detector-field bits 23:12)."),
    C("C12", "exploration", "in-process grid over the real payload cutter + " + CLI + " (view rows, marker faults, over-padding, state reset)",
      "preprocess_payload vs reference cutter over formats x word counts x 0xFF runs 0..40 (all residues mod 10 and 16); data view rows (count, offsets, bytes); marker faults reported at base + i*slot; exactly one Payload error per over-padded payload, its words not examined, next packet judged from the initial state.",
      "Layout agrees with the header's data format; the disagreeing case is known finding D8 (sniff-vs-header-format)."),
    C("C13", "exploration", CLI + " on frames from an independent ALPIDE encoder, reference verdict + metamorphic hit-content pairs",
      "Frames for all barrels with legal / illegal lane sets, chip lists (ids, bunch counters, flags, empty frames, no chip, FATAL announcement), split over words and pages: frame-level codes at the frame start, lanes listed, inner codes and alpide_stats must equal the reference verdict; each stream encoded twice with different (also header-like) hit bytes must give identical verdicts and counters.",
      "Reference verdict is my transcription of doc/checks_list.md; known finding D9 (announcing frame rejected)."),
    C("C15", "fault_enumeration", CLI + ": round trip, then leaf-by-leaf perturbation of the written statistics file",
      "Statistics file (JSON/TOML, +-m; check modes, views and filtered output; half of the runs write over an existing longer file) written by a run must be accepted by an identical run; every leaf that the run collects, perturbed one at a time (all leaves in thorough, 40 sampled per file in quick), must be reported as a mismatch with the any-errors exit status; a changed input with the old file must be reported iff its own statistics differ. Storm cases: > 100 000 messages from 4 links (files of tens of MB) round-trip, drift of a late message detected.",
      "Perturbed files stay well-typed."),
    C("C16", "exploration", CLI + ": exit status / accounting contract table",
      "Contract table (clean, k errors, mid-stream fatal, custom-check failure, statistics mismatch also muted, missing / empty / short / non-ALICE input, 16 invalid option combinations (all of them in every such case), views / filtered writing with non-fatal errors, storms of 3000..20000 errors (cap 1025..5000, fatal error behind them), statistics extension differing in case) x N values; totals in report = statistics = displayed; -m, -w (leading code, prefixes of other codes), -e, -e together with -w.",
      "Sampled configurations."),
    C("C17", "fault_enumeration", "process monitor (/proc) + schedule perturbation (H1): stop conditions at logical instants; ThreadSanitizer build in the thorough tier",
      "SIGINT/SIGTERM after chunk k of the input or n bytes of output, stdout closed after n bytes (views, filtered data, -S stdout), error cap, fatal framing error at packet i with stalled threads / full queues: the process must exit (no-progress criterion for deadlocks, CPU-time bound for busy loops), not by signal, without panic, status in {0,1,N}; scenarios include an ignored -o next to a check/view on a 16 000-packet link and 20 000 packets of filtered data to a closed stdout; a partial -o file must be a whole-packet prefix of the expected output. A pipe producer that goes quiet for 0.7-1.6 s after the signal / at a random chunk; 700 ms stalls; fatal error in packet 0; scale cases: a 640 000-packet pipe must be cut short (not consumed completely) by cap values 65..4097 and by an early closed stdout.",
      "Single stop signal, delivered once the tool has installed its handler (SigCgt); upstream eventually delivers or closes (it may go quiet for up to 1.6 s); thorough tier on the exact shipped profile."),
    C("C18", "fault_enumeration", CLI + ": metamorphic prefix vs full run over enumerated cut positions",
      "Cut at every structural boundary +-1 (quick) / every byte of small streams (thorough) x 5 modes x {file, pipe} x optional filter: normal termination, and findings (messages / view rows) located in complete packets identical to the untruncated run's.",
      "Frame messages whose frame ends in the incomplete packet are excluded."),
    C("C20", "exploration", CLI + ": custom checks vs generator ground truth",
      "cdps / triggers_pht at truth-1, truth, truth+1; rdh_version vs per-packet versions; OB chip count / order per lane per frame; all-commented file vs no file; key subsets; trigger period incl. wrap-around and deviations: [E9001] [E9002] [E10 Header ID] [E9004] [E9005] [E45] appear exactly where the ground truth says.",
      "Sampled streams and configurations."),
]
done = {c["id"] for c in CHECKS}
NOT_APPLICABLE = [{"property_id": p, "reason": "monitor not registered yet (work in progress, see DESIGN.md §3)"} for p in ALL if p not in done]
CHECKS.sort(key=lambda c: c["id"])
