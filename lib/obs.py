"""Runs the real binary and turns its observable output into events."""
import os, re, json, subprocess, signal, time, tomllib
from common import WORK

ANSI = re.compile(r"\x1b\[[0-9;]*m")
LEVELS = ("ERROR", "WARN", "INFO", "DEBUG", "TRACE")
ERR_HEAD = re.compile(r"^0x([0-9A-F]+): (?:\[E(\d{2,4})\])?")
CODE = re.compile(r"\[E(\d{2,4})\]")
DUMP = re.compile(r"\[((?:[0-9A-F]{2} ){9}[0-9A-F]{2})\]")


def strip_ansi(s):
    return ANSI.sub("", s)


class Msg:
    """One error message (from the statistics file or stderr)."""
    __slots__ = ("text", "offset", "code", "codes")

    def __init__(self, text):
        self.text = text
        m = ERR_HEAD.match(text)
        self.offset = int(m.group(1), 16) if m else None
        self.code = m.group(2) if m else None
        self.codes = CODE.findall(text)

    def dump(self):
        """Bytes quoted in the trailing [..] word dump of the first line, if any."""
        first = self.text.split("\n", 1)[0]
        m = None
        for m in DUMP.finditer(first):
            pass
        return bytes.fromhex(m.group(1).replace(" ", "")) if m else None

    def __repr__(self):
        return "Msg(%r)" % self.text[:120]


class Run:
    def __init__(self):
        self.args = None
        self.rc = None          # exit status (>=0) or None if signalled
        self.sig = None         # terminating signal number
        self.stdout = b""
        self.stderr = ""
        self.stats = None       # parsed statistics file
        self.stats_raw = None
        self.out_file = None    # bytes of -o file
        self.timeout = False
        self.wall = 0.0

    # ---- stderr ------------------------------------------------------------------------------
    def entries(self):
        """Log entries of stderr: list of (level, text without colour)."""
        out = []
        cur = None
        for line in self.stderr.split("\n"):
            lvl = None
            for L in LEVELS:
                if line.startswith(L + " "):
                    lvl = L
                    break
            if lvl:
                cur = [lvl, line[len(lvl) + 1:]]
                out.append(cur)
            elif cur is not None:
                cur[1] += "\n" + line
        return [(l, strip_ansi(t).rstrip("\n")) for l, t in out]

    def displayed_errors(self):
        """Error messages displayed on stderr (red entries that start with an offset)."""
        res = []
        cur = None
        for line in self.stderr.split("\n"):
            if line.startswith("ERROR \x1b[31m"):
                cur = [line[len("ERROR \x1b[31m"):]]
                res.append(cur)
            elif any(line.startswith(L + " ") for L in LEVELS):
                cur = None
            elif cur is not None:
                cur.append(line)
        msgs = []
        for parts in res:
            t = strip_ansi("\n".join(parts)).rstrip("\n")
            msgs.append(Msg(t))
        return msgs

    def panicked(self):
        s = self.stderr
        return ("panicked at" in s) or ("Well, this is embarrassing" in s) or ("had a problem and crashed" in s)

    def abnormal(self, allowed_rc=(0, 1)):
        """None if the process ended normally, else a short reason."""
        if self.timeout:
            return "timeout"
        if self.sig is not None:
            return "signal %d" % self.sig
        if self.panicked():
            return "panic text on stderr"
        if self.rc not in allowed_rc:
            return "exit status %s" % self.rc
        return None

    # ---- statistics file -----------------------------------------------------------------------
    def reported(self):
        if not self.stats:
            return None
        return [Msg(t) for t in self.stats["error_stats"]["reported_errors"]]

    def total_errors(self):
        return self.stats["error_stats"]["total_errors"] if self.stats else None

    # ---- report ------------------------------------------------------------------------------
    def report_rows(self):
        """{statistic name: value string} parsed from the report table on stdout."""
        txt = strip_ansi(self.stdout.decode("utf-8", "replace"))
        rows = {}
        for line in txt.split("\n"):
            line = line.strip().strip("│|").strip()
            m = re.match(r"^(Total Errors|Total RDHs|Links observed|FEE IDs seen|Total HBFs|Run Trigger Type|RDHs|HBFs|RDH Version|Data Format|System ID|Chip Trailers seen|Layers/Staves)\s{2,}(\S.*?)(\s{2,}.*)?$", line)
            if m:
                rows.setdefault(m.group(1), m.group(2).strip())
            else:
                # rows inside side-by-side sub tables
                for mm in re.finditer(r"(RDH Version|Data Format|System ID|RDHs|HBFs|Chip Trailers seen|Busy Violations|Data Overrun|Transmission in Fatal|Flushed Incomplete|Strobe Extended|Busy Transitions)\s{2,}(\S+)", line):
                    rows.setdefault(mm.group(1), mm.group(2))
        return rows


_counter = [0]


def run(exe, args, stdin_data=None, stdin_path=None, env=None, timeout=180, workdir=None, stats=None,
        out_name=None, keep=False, tag="r", allow_timeout=False, prefill_stats=None, stdin_chunk=None, prefill_out=None, out_limit=None):
    """Run fastpasta. stats: 'json'|'toml' adds -S <file> -D <fmt>; out_name adds -o <file>.
    stdin_path feeds a file through a pipe (cat-like) so that the tool sees a pipe, not a file.
    out_limit (bytes): for large cases. The tool's stdout goes to a scratch file and RLIMIT_FSIZE is set, so that a tool that writes far more than
    it should is stopped by SIGXFSZ (an abnormal end, reported as such) instead of exhausting the memory of the check."""
    r = Run()
    wd = workdir or WORK
    os.makedirs(wd, exist_ok=True)
    _counter[0] += 1
    uid = "%s_%d_%d" % (tag, os.getpid(), _counter[0])
    argv = (list(exe) if isinstance(exe, (list, tuple)) else [exe]) + list(args)
    stats_path = out_path = None
    if stats:
        stats_path = os.path.join(wd, uid + "." + stats)
        argv += ["-S", stats_path, "-D", stats]
        if prefill_stats is not None:
            # the statistics path already holds an (older, longer) file: re-using a path is ordinary use
            with open(stats_path, "wb") as f:
                f.write(prefill_stats)
    if out_name:
        out_path = os.path.join(wd, uid + ".out")
        argv += ["-o", out_path]
        if prefill_out is not None:
            with open(out_path, "wb") as f:      # the output path already holds an older, longer file
                f.write(prefill_out)
    r.args = argv
    e = dict(os.environ)
    e.pop("RUST_BACKTRACE", None)
    e["NO_COLOR"] = "0"
    e["TMPDIR"] = wd        # human-panic writes its crash report to the temp dir: keep it inside the scratch directory
    if env:
        e.update(env)
    t0 = time.time()
    try:
        if stdin_path is not None:
            with open(stdin_path, "rb") as f:
                stdin_data = f.read()
        so_path = so_file = pre = None
        if out_limit is not None:
            import resource
            so_path = os.path.join(wd, uid + ".stdout")
            so_file = open(so_path, "wb")

            def pre(lim=int(out_limit)):
                resource.setrlimit(resource.RLIMIT_FSIZE, (lim, lim))
        p = subprocess.Popen(argv, stdin=subprocess.PIPE if stdin_data is not None else subprocess.DEVNULL,
                             stdout=so_file if so_file is not None else subprocess.PIPE, stderr=subprocess.PIPE, env=e, cwd=wd, preexec_fn=pre)
        if stdin_chunk and stdin_data is not None:
            # deliver the input in small pieces (a real upstream process does): short reads on the tool's side
            import threading

            def feed(data=stdin_data, fh=p.stdin):
                try:
                    for i in range(0, len(data), stdin_chunk):
                        fh.write(data[i:i + stdin_chunk])
                        fh.flush()
                    fh.close()
                except (BrokenPipeError, OSError, ValueError):
                    pass
            threading.Thread(target=feed, daemon=True).start()
            stdin_data = None
            p.stdin = None
        try:
            out, err = p.communicate(stdin_data, timeout=timeout)
        except subprocess.TimeoutExpired:
            r.timeout = True
            p.kill()
            out, err = p.communicate()
            if not allow_timeout:
                # a wall-clock watchdog is never a verdict: the case is undecided (C04 / C17 decide hangs with the /proc criterion)
                from common import Inconclusive
                raise Inconclusive("watchdog (%ds) fired for: %s" % (timeout, " ".join(str(a) for a in argv)[:300]))
        if so_file is not None:
            so_file.close()
            with open(so_path, "rb") as f:
                out = f.read()
            os.unlink(so_path)
        r.stdout = out
        r.stderr = err.decode("utf-8", "replace")
        if p.returncode is not None and p.returncode < 0:
            r.sig = -p.returncode
        else:
            r.rc = p.returncode
    finally:
        r.wall = time.time() - t0
    if stats_path and os.path.exists(stats_path):
        with open(stats_path, "rb") as f:
            r.stats_raw = f.read()
        try:
            r.stats = json.loads(r.stats_raw) if stats == "json" else tomllib.loads(r.stats_raw.decode())
        except Exception as ex:  # unparsable statistics file is an observation, not a harness error
            r.stats = None
        if not keep:
            os.unlink(stats_path)
    if out_path and os.path.exists(out_path):
        with open(out_path, "rb") as f:
            r.out_file = f.read()
        if not keep:
            os.unlink(out_path)
    return r


MODES = {
    "sanity": ["check", "sanity"],
    "all": ["check", "all"],
    "sanity_its": ["check", "sanity", "its"],
    "all_its": ["check", "all", "its"],
    "all_its_stave": ["check", "all", "its-stave"],
}


# ---- view parsers ---------------------------------------------------------------------------------
ROW = re.compile(r"^\s*([0-9A-F]+):\s*(.*)$")


def parse_rdh_view(stdout):
    """[(offset, [14 field strings])] from `view rdh` (styled or not)."""
    rows = []
    for line in strip_ansi(stdout.decode("utf-8", "replace")).split("\n"):
        m = ROW.match(line)
        if m:
            rows.append((int(m.group(1), 16), m.group(2).split()))
    return rows


WROW = re.compile(r"^\s*([0-9A-F]+):\s*(RDH|IHW|TDH|TDT|DDW|CDW|DATA)\s+(.*)$")
WBYTES = re.compile(r"\[((?:[0-9A-F]{2} ){9}[0-9A-F]{2})\]")


def parse_frames_view(stdout):
    """[(offset, kind, bytes or None, rest-of-line tokens)] from the ITS readout frame views."""
    rows = []
    for line in strip_ansi(stdout.decode("utf-8", "replace")).split("\n"):
        m = WROW.match(line)
        if not m:
            continue
        off, kind, rest = int(m.group(1), 16), m.group(2), m.group(3)
        b = None
        mb = WBYTES.search(rest)
        if mb and kind != "RDH":
            b = bytes.fromhex(mb.group(1).replace(" ", ""))
            rest = rest[mb.end():]
        rows.append((off, kind, b, rest.split()))
    return rows
