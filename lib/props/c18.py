"""C18 - input truncated at any byte is handled; the intact prefix is still analysed.

Metamorphic oracle: findings(prefix) restricted to the complete packets = findings(full) restricted to the same packets; the process ends normally."""
import os, re
import build, obs, gen, mutate, rdh as R
from common import pmap, scratch, rng_for, save_replay, write_file

LEVEL = "fault_enumeration"
END_AT = re.compile(r"ending at 0x([0-9A-F]+)")
MODES = {"check_all_its": ["check", "all", "its"], "check_all": ["check", "all"], "check_stave": ["check", "all", "its-stave"],
         "view_rdh": ["view", "rdh", "-d"], "view_frames": ["view", "its-readout-frames", "-d"]}


def make_stream(rng, big):
    kw = dict(n_links=rng.choice([1, 2, 3]), hbfs=rng.choice([1, 2]), hits=rng.choice(["none", "few"]))
    if big:
        kw.update(target_packets=rng.choice([205, 301]), hbfs=1, n_links=rng.choice([1, 2, 4]))
    s = gen.generate(rng.getrandbits(40), **kw)
    if rng.random() < 0.5:
        for _ in range(rng.choice([1, 3, 6])):
            t = s.copy()
            m = mutate.mutate_once(rng, t, allow=("rdh", "word", "word", "pad"))
            if any(k in m for k in ("header_size", "system_id", "header_id", "offset", "memory")):
                continue
            s = t
    return s


def boundaries(walk, n, rng, every):
    if every:
        return list(range(0, n + 1))
    cuts = set(range(0, 10)) | {n, n - 1}
    pk = walk
    if len(pk) > 40:
        idx = sorted(set([0, 1, 2, 98, 99, 100, 101, 102, 198, 199, 200, 201, 202, len(pk) - 1, len(pk) - 2] + [rng.randrange(len(pk)) for _ in range(8)]))
        pk = [walk[i] for i in idx if i < len(walk)]
    for p in pk:
        o = p.offset
        end = o + p.f["offset_to_next"]
        for c in (o - 1, o, o + 1, o + 8, o + 32, o + 63, o + 64, o + 65, o + 64 + p.payload_len // 2, end - 1):
            if 0 <= c <= n:
                cuts.add(c)
    return sorted(cuts)


def findings_below(r, limit, view):
    """observable findings located in complete packets (offset < limit)"""
    if view:
        rows = obs.parse_rdh_view(r.stdout) if view == "rdh" else [(o, (k, b, tuple(rest))) for o, k, b, rest in obs.parse_frames_view(r.stdout)]
        return [x for x in rows if x[0] < limit]
    res = []
    for m in (r.reported() or []):
        if m.offset is None or m.offset >= limit:
            continue
        e = END_AT.search(m.text)
        if e and int(e.group(1), 16) >= limit:
            continue    # a frame that ends in the incomplete packet: its evidence lies beyond the intact prefix
        res.append((m.offset, m.text))
    return res


def extremes(s, case, rng, every):
    if case % 3 == 0:
        # headers with an out-of-range data format byte (an [E10] in the full run): the end-of-input messages of the reader quote the header too
        for lp in s.pkts:
            for j, p in enumerate(lp[1:]):
                if j == 0 or rng.random() < 0.3:
                    p.f["data_format"] = rng.choice([1, 3, 255])
    if case % 3 == 1 and not every:
        # extreme payload sizes: RDH-only packets (payload of 0 bytes) and payloads of exactly 10 000 bytes (the documented maximum), with cuts at and inside them
        cand = [(l, i) for l, lp in enumerate(s.pkts) for i in range(1, len(lp))]
        rng.shuffle(cand)
        for l, i in cand[:2]:
            q = s.pkts[l][i]
            q.words, q.pad = [], 0
        for l, i in cand[2:4]:
            q = s.pkts[l][i]
            if q.words:
                n = 625 if s.fmt == 0 else 1000
                k = min(len(q.words) - 1, 2)
                filler = next((w for w in q.words if w[0] == "DATA"), q.words[k])
                while len(q.words) < n:
                    q.words.insert(k, [filler[0], filler[1]])
                del q.words[n:]
                q.pad = 0


def one_job(args):
    exe, wd, seed, case, tier, every = args
    rng = rng_for(seed, case)
    out = dict(case=case, viol=None, runs=0, cuts=0, compared=0, key=None, sample=None)
    big = (not every) and rng.random() < 0.3
    s = make_stream(rng, big)
    if list(MODES)[case % 5].startswith("check") and s.pkts[0] and len(s.pkts[0]) > 1:
        # check modes: always some finding early in the stream, so that findings about complete packets exist for nearly every cut
        s.pkts[0][1].f["bc"] = 0xFFF
    extremes(s, case, rng, every)
    data = s.serialize()
    if every and len(data) > 12000:
        s = gen.generate(rng.getrandbits(40), n_links=1, hbfs=1, hits="none", max_triggers=1, max_pages=1)
        data = s.serialize()
    walk = R.walk(data)
    # stratified over (mode, source, filter): every combination is visited every 20 jobs
    mode = list(MODES)[case % 5]
    view = {"view_rdh": "rdh", "view_frames": "frames"}.get(mode)
    pipe = (case // 5) % 2 == 1
    flt = None
    if (case // 10) % 2 == 1:
        if len(s.links) < 2:
            s = gen.generate(rng.getrandbits(40), n_links=rng.choice([2, 3]), hbfs=rng.choice([1, 2]), hits=rng.choice(["none", "few"]), merge=rng.choice(["roundrobin", "random"]))
            extremes(s, case, rng, every)
            data = s.serialize()
            walk = R.walk(data)
        flt = ("link", rng.choice(s.links).link_id)
    argv_tail = MODES[mode] + (R.filter_args(*flt) if flt else [])
    path = os.path.join(wd, "c%d.raw" % case)
    write_file(path, data)
    full = obs.run(exe, ([] if pipe else [path]) + argv_tail, stdin_path=path if pipe else None, workdir=wd, stats=None if view else "json", tag="c%d" % case)
    out["runs"] += 1
    desc = "%d packets, %d bytes, %s, %s, filter %s" % (len(walk), len(data), mode, "pipe" if pipe else "file", flt)
    out["sample"] = desc
    out["key"] = (mode, pipe, flt is not None, big)
    if full.abnormal() or (not view and full.stats is None):
        out["viol"] = ("truncate:full-run", "%s: abnormal end of the untruncated run: %s" % (desc, full.abnormal()),
                       save_replay("C18", "case%d" % case, {"input.raw": data, "stderr.txt": full.stderr}, dict(seed=seed, case=case)))
        os.unlink(path)
        return out
    if (not view and full.stats["error_stats"].get("fatal_error")) or "FATAL" in full.stderr:
        os.unlink(path)      # a fatal input error ends processing early (excluded: not a truncation effect)
        out["key"] = None
        return out
    cuts = boundaries(walk, len(data), rng, every)
    cpath = os.path.join(wd, "c%d_cut.raw" % case)
    for c in cuts:
        write_file(cpath, data[:c])
        r = obs.run(exe, ([] if pipe else [cpath]) + argv_tail, stdin_path=cpath if pipe else None, workdir=wd, stats=None if view else "json", tag="c%dx" % case,
                    timeout=40, allow_timeout=True)
        out["runs"] += 1
        out["cuts"] += 1
        what = None
        ab = r.abnormal()
        if r.timeout:
            # the watchdog only triggers the inspection: deadlock (no CPU progress, all threads asleep) or non-termination (CPU time beyond a bound
            # proportional to the input) are violations of "terminates normally"; anything else is undecided
            import procmon
            bound = 20.0 + len(data) / 20000.0
            o = procmon.run([exe] + ([] if pipe else [cpath]) + argv_tail, cwd=wd, stdin_data=data[:c] if pipe else None, env=dict(os.environ, TMPDIR=wd),
                            watchdog=20, hard=400, cpu_limit=bound)
            if o.hung:
                ab = "no progress (deadlock) on the truncated input"
            elif o.cpu_exceeded:
                ab = "no termination: %.0f s of CPU time consumed on a %d byte input (bound %.0f s)" % (o.cpu_exceeded, c, bound)
            else:
                from common import Inconclusive
                raise Inconclusive("watchdog fired for a truncated input (cut %d) but the re-run ended / was undecided" % c)
        # start of the incomplete final packet
        limit = 0
        for p in walk:
            if p.offset + p.f["offset_to_next"] <= c:
                limit = p.offset + p.f["offset_to_next"]
            else:
                break
        if ab:
            what = "abnormal end: %s" % ab
        elif c >= 64 or limit > 0:
            if not view and r.stats is None:
                if limit > 0:
                    what = "no statistics file although %d bytes of complete packets precede the cut" % limit
            else:
                a = findings_below(full, limit, view)
                b = findings_below(r, limit, view)
                out["compared"] += len(a)
                if a != b:
                    extra = [x for x in b if x not in a]
                    missing = [x for x in a if x not in b]
                    what = "findings differ on the intact prefix (%d bytes): %d only in the truncated run, %d only in the full run; e.g. %s" % (
                        limit, len(extra), len(missing), str((extra or missing)[0])[:160])
                elif not view and limit == c and c > 0:
                    # the input ends exactly at a packet boundary: there is no incomplete final packet, so no reader message about one ([E100]/[E101]) may appear
                    ghost = [m for m in (r.reported() or []) if m.code in ("100", "101")]
                    if ghost:
                        what = "spurious end-of-input error: the input ends exactly at a packet boundary, yet: %s" % ghost[0].text[:120]
        if what:
            d = save_replay("C18", "case%d" % case, {"input.raw": data, "cut.raw": data[:c], "stderr.txt": r.stderr, "stdout.txt": r.stdout, "full.stderr.txt": full.stderr},
                            dict(seed=seed, case=case, cut=c, argv=argv_tail, pipe=pipe, what=what))
            out["viol"] = ("truncate:%s:%s" % (mode, what.split(":")[0].split(" (")[0]), "%s, cut at byte %d: %s" % (desc, c, what), d)
            break
    for p in (path, cpath):
        if os.path.exists(p):
            os.unlink(p)
    return out


def run(res):
    exe = build.fastpasta("rel")
    wd = scratch("c18")
    quick = res.tier == "quick"
    jobs = [(exe, wd, res.seed, c, res.tier, False) for c in range(20 if quick else 120)]
    if not quick:
        jobs += [(exe, wd, res.seed, 1000 + c, res.tier, True) for c in range(48)]
    else:
        jobs += [(exe, wd, res.seed, 1000 + c, res.tier, True) for c in range(2)]
    for o in pmap(one_job, jobs):
        res.evaluations += o["runs"]
        res.count("cut_positions", o["cuts"])
        res.count("findings_compared", o["compared"])
        if o["viol"]:
            res.violation(*o["viol"])
        if o["cuts"] and o["key"]:
            res.nontrivial.add(o["key"])
        if o["sample"]:
            res.sample(o["sample"])
    res.rule = ("conforming and corrupted multi-packet streams (incl. > 200 packets so that cuts fall on both sides of a batch boundary) x {check all its, check all, check all its-stave, view rdh, "
                "view its-readout-frames} x {file, pipe} x optional link filter; cut at every structural boundary +-1 (quick) / every byte of small streams (thorough); "
                "non-trivial = distinct (mode, source, filter?, size class)")
    res.min_nontrivial = 8 if quick else 25
    res.assumptions = ["a frame-level message whose frame ends inside the incomplete packet is not a finding about the intact prefix"]
