"""C01 - conforming data is accepted by every check mode (no false alarms).

Observed: stderr error entries, statistics file (total_errors, reported_errors, custom, fatal), report row `Total Errors`, exit status with -E.
Oracle: all empty / zero / exit 0."""
import os
import build, obs, gen
from common import pmap, scratch, rng_for, save_replay, write_file

LEVEL = "exploration"
REQUIRED = ["barrel:IB", "barrel:ML", "barrel:OL", "format:0", "format:2", "version:6", "version:7", "split_packet", "tdh:no_data", "tdh:no_data_run",
            "trigger:PhT", "mode:internal", "cdw", "merge:contiguous", "merge:roundrobin", "merge:random", "hbf:multi_page", "padlen:0", "padlen:15",
            "detfield:status_bits", "alpide:hits", "packets:batch_multiple", "ihw:superset", "chip:empty", "chip:data"]


def one_case(args):
    exe, wd, seed, case, tier = args
    rng = rng_for(seed, case)
    kw = {}
    r0 = rng.random()
    if case == 0:
        kw = dict(target_packets=12000, hbfs=1, n_links=rng.choice([1, 3]))      # scale: one long conforming stream per run (> 100 reader batches, > 4096 packets per link)
    elif case == 1:
        kw = dict(n_links=rng.choice([1, 2]), hbfs=2, max_pages=400, max_triggers=600, p_split=0.3, hits="none")     # scale: HBFs of several hundred pages (page counters beyond 255)
    elif r0 < 0.06:
        kw = dict(target_packets=rng.choice([100, 200, 300, 99, 101, 199, 201]), hbfs=1, n_links=rng.choice([1, 2, 4]))
    elif r0 < 0.10:
        kw = dict(n_links=rng.choice([12, 24]), hbfs=rng.choice([1, 2]))
    elif tier == "thorough" and r0 < 0.12:
        kw = dict(target_packets=rng.choice([1000, 10000]), hbfs=1, n_links=rng.choice([1, 3, 12]))
    elif tier == "thorough" and r0 < 0.14:
        kw = dict(max_pages=30, hbfs=2, max_triggers=40, p_split=0.5)
    s = gen.generate(rng.getrandbits(40), **kw)
    data = s.serialize()
    path = os.path.join(wd, "c%d.raw" % case)
    write_file(path, data)
    out = dict(case=case, viol=None, fv=s.feature_vector(), runs=0, sample=None)
    try:
        for mode, margs in obs.MODES.items():
            opt = rng.choice([[], [], ["-m"], ["-E", str(rng.choice([1, 7, 123, 255]))], ["-E", "9", "-m"], ["-e", str(rng.choice([1, 3]))], ["-w", "10", "44", "9"], ["-v", "0"], ["-v", "2"]])
            use_stdin = rng.random() < 0.2
            argv = ([] if use_stdin else [path]) + margs + opt
            r = obs.run(exe, argv, stdin_path=path if use_stdin else None, workdir=wd, stats=rng.choice(["json", "toml"]), tag="c%d" % case)
            out["runs"] += 1
            what = None
            ab = r.abnormal(allowed_rc=(0,))
            errs = r.displayed_errors()
            if ab:
                what = "abnormal end / non-zero exit: %s (options %s)" % (ab, opt)
            elif errs:
                what = "error printed: %s" % errs[0].text[:160]
            elif any(l == "ERROR" for l, _ in r.entries()):
                what = "ERROR entry on stderr: %s" % [t for l, t in r.entries() if l == "ERROR"][0][:160]
            elif r.stats is None:
                what = "no statistics file"
            else:
                es = r.stats["error_stats"]
                if es["total_errors"] != 0 or es["reported_errors"] or es["custom_checks_stats_errors"] or es.get("fatal_error"):
                    what = "statistics file lists errors: total=%d %s" % (es["total_errors"], (es["reported_errors"] + [es.get("fatal_error")])[0])
                else:
                    rows = r.report_rows()
                    if rows.get("Total Errors") != "0":
                        what = "report row Total Errors = %r" % rows.get("Total Errors")
            if what:
                first = (r.reported() or errs or [None])[0]
                code = first.code if first is not None and first.code else "none"
                d = save_replay("C01", "case%d_%s" % (case, mode), {"input.raw": data, "stderr.txt": r.stderr, "stdout.txt": r.stdout, "stats.txt": r.stats_raw or b""},
                                dict(seed=seed, case=case, argv=argv, what=what, features=sorted(s.features)))
                out["viol"] = ("falsealarm:%s:E%s" % (mode, code), "conforming stream (%d packets, %s) in check %s: %s" % (len(s.all_packets()), ",".join(sorted(s.features))[:200], mode, what), d)
                break
    finally:
        os.unlink(path)
    out["sample"] = "%d packets, %d links, %s" % (len(s.all_packets()), len(s.links), " ".join(sorted(s.features))[:300])
    return out


def run(res):
    exe = build.fastpasta("rel")
    wd = scratch("c01")
    n = 160 if res.tier == "quick" else 12000
    feats = set()
    for o in pmap(one_case, [(exe, wd, res.seed, c, res.tier) for c in range(n)]):
        res.evaluations += o["runs"]
        if o["viol"]:
            res.violation(*o["viol"])
        res.nontrivial.add(o["fv"])
        feats |= set(o["fv"])
        res.sample(o["sample"], cap=4)
    missing = [f for f in REQUIRED if f not in feats]
    res.extra.update(streams=n, features_seen=sorted(feats), required_features_missing=missing)
    if missing:
        res.inconclusive.append("grammar features never generated in this run: %s" % missing)
        if len(missing) > 3:
            res.nontrivial.clear()
    res.rule = ("G-conf grammar streams (DESIGN.md §2.4) x 5 check modes x option rotation {none, -m, -E n, -e n, -w codes, -v 0/2, pipe input}; non-trivial = distinct feature vector "
                "(layers, format, version, split packets, no-data runs, PhT, CDW, padding lengths, merge kind, batch multiple, ...)")
    res.min_nontrivial = 40 if res.tier == "quick" else 400
    res.assumptions = ["the grammar is my reading of doc/checks_list.md, the state diagram and the shipped test files; bc <= 0xdeb and detector-field bits 23:12 reserved (see DESIGN.md §1)"]
