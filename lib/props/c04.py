"""C04 - no input crashes or hangs the tool.

Observed: terminating signal, exit status, panic text, sanitizer reports, the logical no-progress condition. Workload: pure random bytes, structure-aware and
byte-level mutants of generated streams and of the shipped test files, directed inputs for every panic site known to be reachable from input; all modes x options."""
import os, re, glob, random
import build, obs, gen, mutate, frame, procmon, its, alpide, rdh as R
from common import pmap, scratch, rng_for, save_replay, write_file, REPO

LEVEL = "exploration"
HANG_INSPECTIONS = [0]
PANIC = re.compile(r"panicked at ([^\n:]+):\d+:\d+:\n([^\n]*)")


def shipped_files():
    return sorted(glob.glob(os.path.join(REPO, "tests", "test-data", "*.raw")))


def byte_mutate(rng, data):
    d = bytearray(data)
    if not d:
        return bytes(d)
    for _ in range(rng.choice([1, 1, 2, 4, 10])):
        op = rng.choice(["flip", "set", "rdh", "rdh", "splice", "dup", "trunc", "zero", "ff", "insert"])
        i = rng.randrange(len(d))
        if op == "flip":
            d[i] ^= 1 << rng.randrange(8)
        elif op == "set":
            d[i] = rng.choice([0, 1, 0x7F, 0x80, 0xFF, rng.randrange(256)])
        elif op == "rdh":
            w = R.walk(bytes(d), strict=False)
            if w:
                p = rng.choice(w)
                f = dict(p.f)
                k = rng.choice(["offset_to_next", "memory_size", "fee_id", "link_id", "system_id", "data_format", "stop_bit", "pages_counter", "header_id", "header_size",
                                "trigger_type", "detector_field", "orbit", "bc"])
                f[k] = rng.choice([0, 1, 63, 64, 65, 0x7FFF, 0xFFFF, 10064, 10065, rng.getrandbits(16)]) if k in ("offset_to_next", "memory_size") else rng.getrandbits(32)
                d[p.offset:p.offset + 64] = R.pack(f)
        elif op == "splice":
            j = rng.randrange(len(d))
            n = rng.choice([1, 10, 16, 64, 200])
            seg = bytes(d[j:j + n])
            d[i:i + len(seg)] = seg
        elif op == "dup":
            n = rng.choice([10, 16, 64, 500])
            d[i:i] = d[i:i + n]
        elif op == "trunc":
            del d[i:]
            if not d:
                break
        elif op == "zero":
            n = rng.choice([1, 6, 10, 64])
            d[i:i + n] = bytes(min(n, len(d) - i))
        elif op == "ff":
            n = rng.choice([1, 10, 16, 40])
            d[i:i + n] = b"\xff" * min(n, len(d) - i)
        else:
            d[i:i] = bytes(rng.getrandbits(8) for _ in range(rng.choice([1, 10, 64])))
    return bytes(d)


def directed(rng):
    """inputs aimed at the panic sites known to be reachable from input (DESIGN.md §4)"""
    res = []
    res.append(("input shorter than 8 bytes", bytes(rng.getrandbits(8) for _ in range(rng.randrange(0, 8)))))
    # stave mode: lane without chip header / data word outside a frame / layer 7 / IB lane id above 8 with a FATAL APE
    def page(words, fee, page=0, stop=0, link=1, fmt=2, sysid=32):
        pl = b"".join(words) + b"\xff" * ((-10 * len(words)) % 16)
        return R.pack(dict(R.DEFAULT, fee_id=fee, link_id=link, pages_counter=page, stop_bit=stop, orbit=5, data_format=fmt, system_id=sysid,
                           offset_to_next=64 + len(pl), memory_size=64 + len(pl))) + pl
    ib = R.fee_id(0, 1, 0)
    tdh = its.tdh(0x803, 1, 0, 0, 0, 5)
    res.append(("lane without chip header", page([its.ihw(7), tdh, its.data_word(0x20, bytes(9)), its.data_word(0x21, bytes([0xE1, 5] + [0] * 7)), its.data_word(0x22, bytes([0xE2, 5] + [0] * 7)), its.tdt(1)], ib)))
    res.append(("data word outside a frame", page([its.ihw(7), its.tdh(0x803, 1, 0, 1, 0, 5), its.data_word(0x20, bytes([0xE0, 5] + [0] * 7)), its.tdt(1)], ib)))
    res.append(("FEE id layer 7 on a later RDH", page([its.ihw(7), tdh, its.data_word(0x20, bytes([0xE0, 5] + [0] * 7)), its.tdt(1)], ib) + page([its.ddw0()], ib | 0x7000, 1, 1)))
    res.append(("fatal APE in a lane with an invalid IB id", page([its.ihw(7), tdh, its.data_word(0x3D, bytes([0xF4] + [0] * 8)), its.data_word(0x21, bytes([0xE1, 5] + [0] * 7)), its.tdt(1)], ib)))
    res.append(("system id differs between first and filtered packet", page([its.ihw(7), tdh, its.tdt(1)], ib, link=1) +
                page([its.ihw(7), tdh, its.data_word(0x20, bytes([0xE0, 5] + [0] * 7)), its.tdt(1)], R.fee_id(1, 2, 0), link=2, sysid=33), ["-f", "2"]))
    res.append(("memory size below 64", R.pack(dict(R.DEFAULT, offset_to_next=64, memory_size=rng.choice([0, 1, 63]))) * 3))
    res.append(("offset_to_next larger than memory size", R.pack(dict(R.DEFAULT, offset_to_next=200, memory_size=64)) + bytes(136) + R.pack(dict(R.DEFAULT, pages_counter=1, stop_bit=1))))
    # framing errors on packets that a filter skips (the skip loop has its own copy of the offset check)
    for bad in (0, 1, 63, 10065, 0xFFFF):
        good = page([its.ihw(7), tdh, its.tdt(1)], ib, link=0)
        other = page([its.ihw(7), tdh, its.tdt(1)], R.fee_id(1, 1, 0), link=1)
        broken = bytearray(page([its.ihw(7), tdh, its.tdt(1)], R.fee_id(1, 2, 0), link=2))
        broken[8:10] = bad.to_bytes(2, "little")
        res.append(("offset_to_next = %d on a packet skipped by the filter" % bad, good + other + bytes(broken) + good, ["-f", "0"]))
    res.append(("payload of 0xFF only", page([b"\xff" * 10] * 4, ib)))
    res.append(("unknown system id", page([its.ihw(7), tdh, its.tdt(1)], ib, sysid=rng.choice([0, 1, 2, 9, 40, 254]))))
    # scale (stored as a recipe, expanded in the worker): error storms beyond every display / bookkeeping threshold
    def rdh_only(i, stop, bc=0xFFF, link=8):
        return R.pack(dict(R.DEFAULT, fee_id=ib, link_id=link, pages_counter=i & 1 if stop is None else 0, stop_bit=(i & 1) if stop is None else stop, orbit=5 + i // 2, bc=bc, system_id=32,
                           offset_to_next=64, memory_size=64))
    res.append(("storm: 3000 RDHs with an error each and no closed HBF (stop bit never set)", ("repeat", b"".join(rdh_only(i, 0) for i in range(100)), 30)))
    res.append(("storm: 3000 RDHs with an error each and no closed HBF, muted", ("repeat", b"".join(rdh_only(i, 0) for i in range(100)), 30), ["-m"]))
    res.append(("storm: 200 000 RDHs with an error each, error cap, filter and ignored -o", ("repeat", b"".join(rdh_only(i, None) for i in range(1000)), 200),
                ["-f", "8", "-o", "IGNORED_OUT", "-e", str(rng.choice([1000, 2000, 3000]))]))
    res.append(("storm: 200 000 RDHs with an error each, large error cap", ("repeat", b"".join(rdh_only(i, None) for i in range(1000)), 200), ["-e", str(rng.choice([4097, 70000])), "-m"]))
    return res


MODE_ARGS = [["check", "sanity"], ["check", "all"], ["check", "sanity", "its"], ["check", "all", "its"], ["check", "all", "its-stave"],
             ["view", "rdh"], ["view", "its-readout-frames"], ["view", "its-readout-frames-data"], ["WRITER"]]


def options(rng, mode, wd, case, data):
    opts = []
    w = R.walk(data, strict=False)
    f0 = rng.choice(w).f if w else dict(link_id=0, fee_id=0)
    stave = None
    if mode == ["WRITER"] or rng.random() < 0.35:
        k = rng.choice(["-f", "-F", "-s"])
        if k == "-f":
            opts += ["-f", str(rng.choice([f0["link_id"], rng.randrange(256)]))]
        elif k == "-F":
            opts += ["-F", str(rng.choice([f0["fee_id"], rng.getrandbits(16)]))]
        else:
            stave = "L%d_%d" % ((f0["fee_id"] >> 12) & 7, f0["fee_id"] & 0x3F)
            opts += ["-s", stave]
    if mode == ["WRITER"]:
        opts += rng.choice([[], ["-o", "stdout"], ["-o", os.path.join(wd, "c%d.out" % case)]])
        return opts
    if rng.random() < 0.2:
        opts.append("-m")
    if rng.random() < 0.2:
        opts += ["-e", str(rng.choice([1, 2, 10]))]
    N = None
    if rng.random() < 0.3:
        N = rng.choice([1, 5, 77, 255])
        opts += ["-E", str(N)]
    if rng.random() < 0.1:
        opts.append("-d")
    if rng.random() < 0.15:
        opts += ["-S", os.path.join(wd, "c%d.stats" % case), "-D", rng.choice(["json", "toml"])]
    if rng.random() < 0.15:
        tp = os.path.join(wd, "c%d.toml" % case)
        lines = []
        if rng.random() < 0.5:
            lines.append("cdps = %d" % rng.choice([0, 1, len(w), 10]))
        if rng.random() < 0.5:
            lines.append("triggers_pht = %d" % rng.choice([0, 1]))
        if rng.random() < 0.5:
            lines.append("rdh_version = %d" % rng.choice([6, 7]))
        if rng.random() < 0.5:
            lines.append("chip_count_ob = %d" % rng.choice([7, 1]))
        if rng.random() < 0.5:
            lines.append("chip_orders_ob = [[0, 1, 2, 3, 4, 5, 6], [8, 9, 10, 11, 12, 13, 14]]")
        write_file(tp, "\n".join(lines) + "\n")
        opts += ["-c", tp]
    if mode == ["check", "all", "its-stave"] and stave and rng.random() < 0.5:
        opts += ["-p", str(rng.choice([1, 198, 3563]))]
    if rng.random() < 0.1:
        opts += ["-w", rng.choice(["10", "11", "70", "991"])]
    return opts


def signature(stderr):
    m = PANIC.search(stderr)
    if m:
        msg = re.sub(r"0x[0-9A-Fa-f]+|\d+", "N", m.group(2))[:70]
        return "panic:%s:%s" % (m.group(1), msg)
    return None


def one_case(args):
    exe, wd, seed, case, tier, corpus, dir_inputs = args
    rng = rng_for(seed, case)
    out = dict(case=case, viol=None, key=None, sample=None, inconclusive=None, size=0)
    r0 = rng.random()
    fixed_opts = None
    if case < len(dir_inputs) * len(MODE_ARGS):
        name, data = dir_inputs[case // len(MODE_ARGS)][:2]
        if isinstance(data, tuple) and data[0] == "repeat":
            data = data[1] * data[2]
        mode = MODE_ARGS[case % len(MODE_ARGS)]
        src = "directed: " + name
        if len(dir_inputs[case // len(MODE_ARGS)]) > 2:
            fixed_opts = dir_inputs[case // len(MODE_ARGS)][2] + (["-o", "stdout"] if mode == ["WRITER"] and "-o" not in dir_inputs[case // len(MODE_ARGS)][2] else [])
            fixed_opts = [os.path.join(wd, "c%d.ignored" % case) if a == "IGNORED_OUT" else a for a in fixed_opts]
            if mode == ["WRITER"] and not any(a in ("-f", "-F", "-s") for a in fixed_opts):
                fixed_opts = ["-f", "8"] + fixed_opts        # (filtered writing needs a filter: without one the command line is not a valid combination)
    else:
        mode = rng.choice(MODE_ARGS)
        if r0 < 0.15:
            n = rng.choice([0, 1, 7, 8, 9, 63, 64, 65, 100, 1000, rng.randrange(70000)])
            data = rng.randbytes(n)
            if rng.random() < 0.5 and n >= 8:       # random bytes behind a plausible first RDH0, so that the run gets past the start-up gate
                data = R.pack(dict(R.DEFAULT, offset_to_next=rng.choice([64, 100, 5000]), memory_size=rng.choice([64, 100, 5000])))[:rng.choice([8, 64])] + data[8:]
            src = "random bytes"
        elif r0 < 0.55:
            s = gen.generate(rng.getrandbits(40), n_links=rng.choice([1, 2, 4]), hbfs=rng.choice([1, 2]))
            for _ in range(rng.choice([1, 2, 5, 10])):
                mutate.mutate_once(rng, s, allow=("rdh", "word", "word", "pad", "packet"))
            data = s.serialize()
            if rng.random() < 0.5:
                data = byte_mutate(rng, data)
            src = "mutated generated stream"
        else:
            data = byte_mutate(rng, corpus[rng.randrange(len(corpus))][1])
            src = "mutated shipped file"
    out["size"] = len(data)
    path = os.path.join(wd, "c%d.raw" % case)
    write_file(path, data)
    opts = options(rng, mode, wd, case, data) if fixed_opts is None else fixed_opts
    pipe = rng.random() < 0.3
    argv = ([] if pipe else [path]) + ([] if mode == ["WRITER"] else mode) + opts
    N = int(opts[opts.index("-E") + 1]) if "-E" in opts else None
    env = {"RUST_BACKTRACE": "1", "ASAN_OPTIONS": "halt_on_error=1:detect_leaks=0:abort_on_error=1"}
    r = obs.run(exe, argv, stdin_path=path if pipe else None, workdir=wd, timeout=40 if isinstance(exe, str) else 600, env=env, tag="c%d" % case, allow_timeout=True)
    if not isinstance(exe, str) and r.rc == 99:      # valgrind --error-exitcode
        d = save_replay("C04", "case%d" % case, {"input.raw": data, "stderr.txt": r.stderr}, dict(seed=seed, case=case, argv=argv, pipe=pipe, source=src))
        out["viol"] = ("memcheck:" + (re.search(r"== (Invalid \w+|Conditional jump|Use of uninitialised|Syscall param[^\n]*)", r.stderr) or [None, "error"])[1][:40],
                       "valgrind memcheck reports an error: %s" % r.stderr[-600:], d)
        return out
    out["sample"] = "%s (%d bytes), %s" % (src, len(data), " ".join(a if not a.startswith(wd) else os.path.basename(a) for a in argv))
    out["key"] = (src.split(":")[0], " ".join(mode), tuple(sorted(o for o in opts if o.startswith("-") and not o[1:].isdigit())))
    what = sig = None
    if r.timeout:
        # the wall-clock watchdog only triggers the inspection; the verdict uses logical criteria: (a) deadlock = alive, all threads asleep, no CPU
        # time consumed; (b) no termination = CPU time far beyond a bound proportional to the input size (normal runs need milliseconds)
        HANG_INSPECTIONS[0] += 1
        if HANG_INSPECTIONS[0] > 6:
            out["inconclusive"] = "%s: watchdog fired (further inspections skipped after 6)" % out["sample"]
        else:
            bound = 20.0 + len(data) / 20000.0
            o = procmon.run((list(exe) if not isinstance(exe, str) else [exe]) + argv, cwd=wd, stdin_data=data if pipe else None, env=dict(os.environ, TMPDIR=wd),
                            watchdog=30, hard=600, cpu_limit=bound)
            if o.hung:
                what, sig = "hang: no progress (all threads asleep, no CPU time consumed)", "hang:%s" % " ".join(mode)
            elif o.cpu_exceeded:
                what = "no termination: %.0f s of CPU time consumed on a %d byte input (bound %.0f s), still running" % (o.cpu_exceeded, len(data), bound)
                sig = "no-termination:%s" % " ".join(mode)
            elif o.inconclusive:
                out["inconclusive"] = "%s: %s" % (out["sample"], o.inconclusive)
    elif r.sig is not None:
        sig = signature(r.stderr) or "signal:%d" % r.sig
        what = "killed by signal %d (%s)" % (r.sig, sig)
    elif r.panicked():
        sig = signature(r.stderr) or "panic:unknown"
        what = "panic message on stderr (%s)" % sig
    elif r.rc not in (0, 1, N):
        sig = "exit:%s" % r.rc
        what = "exit status %s" % r.rc
    elif "AddressSanitizer" in r.stderr or "runtime error:" in r.stderr:
        sig = "sanitizer:" + (re.search(r"ERROR: AddressSanitizer: (\S+)", r.stderr) or [None, "report"])[1]
        what = "sanitizer report: %s" % r.stderr[r.stderr.find("ERROR: AddressSanitizer"):][:300]
    if what:
        d = save_replay("C04", "case%d" % case, {"input.raw": data, "stderr.txt": r.stderr}, dict(seed=seed, case=case, argv=argv, pipe=pipe, what=what, source=src))
        out["viol"] = (sig, "%s: %s" % (out["sample"], what), d)
    for f in glob.glob(os.path.join(wd, "c%d.*" % case)):
        try:
            os.unlink(f)
        except OSError:
            pass
    return out


def run_corpus(res, exe, wd, n, label, first_case=0):
    corpus = [(p, open(p, "rb").read()) for p in shipped_files()]
    dir_inputs = directed(rng_for(res.seed, 0, 99))
    total = 0
    for o in pmap(one_case, [(exe, wd, res.seed, c, res.tier, corpus, dir_inputs) for c in range(first_case, first_case + n)]):
        res.evaluations += 1
        total += o["size"]
        if o["viol"]:
            res.violation(*o["viol"])
        if o["inconclusive"]:
            res.inconclusive.append(o["inconclusive"])
        if o["key"]:
            res.nontrivial.add(o["key"])
        if o["sample"]:
            res.sample(o["sample"], cap=8)
    res.count("executions_" + label, n)
    res.count("input_bytes_" + label, total)
    res.extra["directed_inputs"] = [d_[0] for d_ in dir_inputs]


def run(res):
    wd = scratch("c04")
    quick = res.tier == "quick"
    exe = build.fastpasta("rel" if quick else "ship")
    run_corpus(res, exe, wd, 6000 if quick else 150000, "release")
    if not quick:
        from props import c04_sanitizers
        c04_sanitizers.run(res, wd)
    res.rule = ("random bytes (0..70000), structure-aware (RDH fields, words, packets, padding) and byte-level (flips, extreme values, splices, size fields) mutants of generated streams "
                "and of the 18 shipped files, directed inputs for each known input-reachable panic site x 9 modes x options (filters, -m, -e, -E, -w, -c, -p, -S, -d) x {file, pipe}; "
                "non-trivial = distinct (input source, mode, option set)")
    res.min_nontrivial = 150 if quick else 400
    res.assumptions = ["option values and configuration files are well-formed", "hang = logical no-progress criterion; a wall-clock watchdog only triggers the inspection"]
