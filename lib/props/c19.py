"""C19 - views show exactly what is in the data.

Observed: rows of the three views, styled and unstyled. Oracle: independent decoding of the bytes at the row's offset;
for G-conf streams additionally the word kinds assigned by the real cutter + FSM (in-process `classify`)."""
import os, json
import build, obs, frame, gen, its, rdh as R, inproc
from common import pmap, scratch, rng_for, save_replay, write_file

LEVEL = "exploration"


def trig_rdh(t):
    return "SOC" if t & 0x200 else ("SOT" if t & 0x80 else ("HB" if t & 2 else ("PhT" if t & 0x10 else "Other")))


def det_lane(d):
    return "Fatal" if d & 8 else ("Error" if d & 4 else ("Warning" if d & 2 else ("Missing" if d & 1 else "-")))


def exp_rdh_row(f):
    return "v%dstop=%dstave:L%d_%d%s#%d%s%d_%d" % (f["header_id"], f["stop_bit"], (f["fee_id"] >> 12) & 7, f["fee_id"] & 0x3F, trig_rdh(f["trigger_type"]),
                                                      f["link_id"], det_lane(f["detector_field"]), f["orbit"], f["bc"])


def exp_word_row(w):
    k = its.classify_id(w[9])
    if k == "TDH":
        t = its.tdh_fields(w)
        trig = "SOC" if t["trigger_type"] & 0x200 else ("Internal" if t["internal"] else ("PhT" if t["trigger_type"] & 0x10 else "Other"))
        return k, trig + ("Cont." if t["cont"] else "") + ("Nodata" if t["no_data"] else "Data!") + "%d_%d" % (t["orbit"], t["bc"])
    if k == "TDT":
        return k, ("Complete" if w[8] & 1 else "Split") + its.lane_status_class(w)
    if k == "DDW":
        return k, its.lane_status_class(w)
    return k, ""


def one_case(args):
    exe, wd, seed, case, tier = args
    rng = rng_for(seed, case)
    out = dict(case=case, viol=None, events=0, key=None, sample=None, fsm=0)
    conf = rng.random() < 0.4
    view = rng.choice(["rdh", "its-readout-frames", "its-readout-frames-data"])
    kinds_truth = None
    if conf:
        s = gen.generate(rng.getrandbits(40))
        data = s.serialize()
        pkts = [(p.full, [w for _, w in p.words], p.offset, s.fmt) for p in s.all_packets()]
    else:
        npk = rng.choice([1, 5, 30, 100, 101, rng.randrange(1, 250)])
        fp = frame.generate(rng, npk, payload="its", max_payload=rng.choice([64, 300, 1500]), its_only=True)
        data = frame.serialize(fp)
        pkts = [(p.f, p.words or [], p.offset, p.f["data_format"]) for p in fp]
    flt = None
    if rng.random() < 0.3:
        f0 = rng.choice(pkts)[0]
        kind = rng.choice(["link", "fee", "stave"])
        flt = (kind, {"link": f0["link_id"], "fee": f0["fee_id"], "stave": f0["fee_id"] & 0x703F}[kind])
    path = os.path.join(wd, "c%d.raw" % case)
    write_file(path, data)
    base = [path, "view", view] + (R.filter_args(*flt) if flt else [])
    r_plain = obs.run(exe, base + ["-d"], workdir=wd, tag="c%d" % case)
    r_sty = obs.run(exe, base, workdir=wd, tag="c%ds" % case)
    cls = None
    if conf and view != "rdh" and flt is None:
        rc, cls, err, cmd = inproc.run("classify", [path])
    os.unlink(path)
    desc = "%s, %d packets, view %s, filter %s" % ("G-conf" if conf else "G-frame(ITS words, arbitrary flags)", len(pkts), view, flt)
    out["key"] = (view, conf, flt[0] if flt else None, min(len(pkts), 120) // 30)
    out["sample"] = desc

    def bad(what, r=r_plain):
        d = save_replay("C19", "case%d" % case, {"input.raw": data, "stdout.txt": r.stdout, "stderr.txt": r.stderr, "styled.txt": r_sty.stdout},
                        dict(seed=seed, case=case, argv=base, what=what, desc=desc))
        out["viol"] = ("view:%s:%s" % (view, what.split(":")[0]), "%s: %s" % (desc, what), d)
        return out
    for r in (r_plain, r_sty):
        ab = r.abnormal()
        if ab:
            return bad("abnormal end: %s" % ab, r)
    exp = [p for p in pkts if flt is None or R.matches(p[0], flt[0], flt[1])]
    if view == "rdh":
        rows = obs.parse_rdh_view(r_plain.stdout)
        srows = obs.parse_rdh_view(r_sty.stdout)
        out["events"] = len(rows)
        if len(rows) != len(exp):
            return bad("row count: %d rows, %d packets" % (len(rows), len(exp)))
        for i, ((off, fields), p) in enumerate(zip(rows, exp)):
            if off != p[2] or "".join(fields) != "".join(R.row_fields(p[0])):
                return bad("row: row %d (0x%X %s) != packet at 0x%X %s" % (i, off, fields, p[2], R.row_fields(p[0])))
        if [(o, "".join(f)) for o, f in rows] != [(o, "".join(f)) for o, f in srows]:
            return bad("styled: styled and unstyled rows differ")
        return out
    rows = obs.parse_frames_view(r_plain.stdout)
    srows = obs.parse_frames_view(r_sty.stdout)
    want = []
    for f, words, off, fmt in exp:
        want.append((off, "RDH", None, exp_rdh_row(f)))
        slot = 16 if fmt == 0 else 10
        for k, w in enumerate(words):
            kind, attrs = exp_word_row(w)
            if kind == "DATA" and view == "its-readout-frames":
                continue
            want.append((off + 64 + k * slot, kind, w, attrs))
    got = [(o, k, b, "".join(rest)) for o, k, b, rest in rows]
    out["events"] = len(got)
    if len(got) != len(want):
        return bad("row count: %d rows shown, %d expected" % (len(got), len(want)))
    for i, (g, w) in enumerate(zip(got, want)):
        if g != w:
            return bad("row: row %d shows %s, independent decoding gives %s" % (i, g, w))
    if got != [(o, k, b, "".join(rest)) for o, k, b, rest in srows]:
        return bad("styled: styled and unstyled rows differ")
    if cls is not None:
        m = {"IHW": "IHW", "IHW_continuation": "IHW", "TDH": "TDH", "TDH_continuation": "TDH", "TDH_after_packet_done": "TDH", "TDT": "TDT",
             "CDW": "CDW", "DataWord": "DATA", "DDW0": "DDW"}
        chk = {o: m.get(k, k) for o, k in cls}
        shown = {o: k for o, k, b, _ in got if k != "RDH"}
        for o, k in shown.items():
            out["fsm"] += 1
            if chk.get(o) != k:
                return bad("checker kind: word at 0x%X is shown as %s, the checker classifies it as %s" % (o, k, chk.get(o)))
    return out


def run(res):
    exe = build.fastpasta("rel")
    build.harness()
    wd = scratch("c19")
    n = 220 if res.tier == "quick" else 16000
    for o in pmap(one_case, [(exe, wd, res.seed, c, res.tier) for c in range(n)]):
        res.evaluations += 1
        res.count("rows_compared", o["events"])
        res.count("rows_compared_with_checker_classification", o["fsm"])
        if o["viol"]:
            res.violation(*o["viol"])
        if o["events"] > 0:
            res.nontrivial.add(o["key"])
        res.sample(o["sample"])
    res.rule = ("G-frame streams with known-identifier words and arbitrary flag bits, and G-conf streams x 3 views x filters, each run styled and unstyled; every row "
                "decoded back and compared with the bytes at its offset; non-trivial = distinct (view, generator, filter kind, size class) with rows")
    res.min_nontrivial = 20 if res.tier == "quick" else 40
    res.assumptions = ["words carry known identifiers (unknown identifiers are logged, not shown)", "payload layout agrees with the header's data format"]
