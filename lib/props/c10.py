"""C10 - RDH sanity and running checks implement the documented rules exactly.

(i) in-process: every single-bit deviation of all 512 header bits, boundary values, random walks, against the reference model (Rust, harness);
(ii) CLI: RDH-only files with random walks over page counter / stop bit / orbit / trigger / FEE histories and injected faults; the sets of
offsets at which [E10] / [E11] are reported must equal the reference model's (Python twin, lib/refmodel.py)."""
import os
import build, obs, inproc, refmodel, rdh as R
from common import pmap, scratch, rng_for, save_replay, write_file

LEVEL = "exploration"


def conforming_link(rng, n, link_id, version):
    out = []
    # extremes: links that start just below the 32-bit orbit roll-over (they pass through orbit 0) or at orbit 0
    orbit = rng.choice([rng.randrange(1 << 31)] * 6 + [0xFFFFFFFF - rng.randrange(3), 0xFFFFFFFF])
    fee = R.fee_id(rng.randrange(7), rng.randrange(12), rng.randrange(3))
    while len(out) < n:
        orbit = 0 if orbit == 0xFFFFFFFF else (orbit + rng.choice([1, 1, 2, 3])) & 0xFFFFFFFF
        npages = (rng.randint(1, 4) if not out else rng.randint(0, 4)) + 1
        trg = (0x3 | rng.getrandbits(13) << 1 | rng.getrandbits(5) << 27) & ~0x07FF8000 | 1
        det = rng.getrandbits(12) | rng.getrandbits(8) << 24
        for p in range(npages + 1):
            out.append(dict(R.DEFAULT, header_id=version, fee_id=fee, link_id=link_id, orbit=orbit, trigger_type=trg, detector_field=det, pages_counter=p,
                            stop_bit=int(p == npages), bc=rng.randrange(0xDEC), packet_counter=rng.randrange(256), cru_id=rng.getrandbits(12),
                            dw=rng.getrandbits(1), data_format=rng.choice([0, 2, 2, 1]), par_bit=rng.getrandbits(16), reserved1=rng.choice([0, rng.getrandbits(64)]),
                            reserved2=rng.choice([0, rng.getrandbits(64)]), df_reserved=rng.choice([0, rng.getrandbits(56)]), offset_to_next=64, memory_size=64))
    return out


FAULTS = ["page+", "page-", "stop^", "stop2", "orbit+", "orbit-", "trg^", "fee^", "det^", "bit", "page0", "zero3", "bc", "stave", "layer", "fmt", "dw", "sys",
          "hsize", "version", "prio", "res", "trg0", "spare", "detres", "del", "dup"]


def inject(rng, seq):
    what = rng.choice(FAULTS)
    if len(seq) <= 3:
        return what
    pos = rng.randrange(2, len(seq))
    f = seq[pos]
    if what == "page+":
        f["pages_counter"] = (f["pages_counter"] + rng.choice([1, 2, 3])) & 0xFFFF
    elif what == "page-":
        f["pages_counter"] = (f["pages_counter"] - 1) & 0xFFFF
    elif what == "stop^":
        f["stop_bit"] ^= 1
    elif what == "stop2":
        f["stop_bit"] = rng.choice([2, 3, 255])
    elif what == "orbit+":
        f["orbit"] = (f["orbit"] + 1) & 0xFFFFFFFF
    elif what == "orbit-":
        f["orbit"] = (f["orbit"] - rng.choice([1, 2])) & 0xFFFFFFFF
    elif what == "trg^":
        f["trigger_type"] ^= 0x10
    elif what == "fee^":
        f["fee_id"] ^= rng.choice([1, 0x100])
    elif what == "det^":
        f["detector_field"] ^= 1
    elif what == "bit":
        raw = bytearray(R.pack(f))
        b = rng.randrange(512)
        if not (64 <= b < 104):   # keep offset_to_next / memory_size (the file stays well-framed) and the link id (membership of the RDH in its link)
            raw[b // 8] ^= 1 << (b % 8)
            seq[pos] = R.unpack(bytes(raw))
    elif what == "page0":
        f["pages_counter"] = 0
    elif what == "zero3":
        f["pages_counter"], f["stop_bit"] = 0, 0
    elif what == "bc":
        f["bc"] = rng.choice([0xDEB, 0xDEC, 0xFFF])
    elif what == "stave":
        f["fee_id"] = (f["fee_id"] & ~0x3F) | rng.choice([47, 48, 63])
    elif what == "layer":
        f["fee_id"] = (f["fee_id"] & ~0x7000) | rng.choice([6, 7]) << 12
    elif what == "fmt":
        f["data_format"] = rng.choice([2, 3, 255])
    elif what == "dw":
        f["dw"] = rng.choice([1, 2, 15])
    elif what == "sys":
        f["system_id"] = rng.choice([33, 19, 32])
    elif what == "hsize":
        f["header_size"] = rng.choice([0x3F, 0x41, 0])
    elif what == "version":
        f["header_id"] = rng.choice([6, 7, 8])
    elif what == "prio":
        f["priority_bit"] = 1
    elif what == "res":
        f[rng.choice(["rdh0_reserved", "rdh1_reserved", "rdh2_reserved", "rdh3_reserved"])] = 1
    elif what == "trg0":
        f["trigger_type"] = 0
    elif what == "spare":
        f["trigger_type"] |= 1 << rng.randrange(15, 27)
    elif what == "detres":
        f["detector_field"] |= 1 << rng.randrange(12, 24)
    elif what == "del":
        del seq[pos]
    elif what == "dup":
        seq.insert(pos, dict(f))
    return what


def one_case(args):
    exe, wd, seed, case, tier = args
    rng = rng_for(seed, case)
    out = dict(case=case, viol=None, verdicts=0, errs=0, key=None, sample=None)
    nlinks = rng.choice([1, 1, 2, 3])
    version = rng.choice([6, 7])
    n = rng.choice([30, 100, 300, 1000]) if tier == "quick" else rng.choice([100, 1000, 3000, 10000])
    links = []
    faults = []
    used = rng.sample(range(12), nlinks)
    for l in range(nlinks):
        seq = conforming_link(rng, n // nlinks, used[l], version)
        for _ in range(rng.choice([0, 1, 3, max(1, len(seq) // 15)])):
            faults.append(inject(rng, seq))
        links.append(seq)
    # merge round robin in chunks, each link keeps its order
    order = []
    pos = [0] * nlinks
    while any(pos[l] < len(links[l]) for l in range(nlinks)):
        l = rng.randrange(nlinks)
        for _ in range(rng.choice([1, 2, 6])):
            if pos[l] < len(links[l]):
                order.append((l, pos[l]))
                pos[l] += 1
    data = bytearray()
    offsets = {}
    for l, i in order:
        offsets[(l, i)] = len(data)
        data += R.pack(links[l][i])
    first = links[order[0][0]][order[0][1]]
    if not (3 <= first["header_id"] <= 100) or first["system_id"] not in (32, 33, 19):
        return out
    mode = rng.choice(["sanity", "all", "all", "sanity_its", "all_its"])
    its_mode = mode.endswith("its")
    running = mode.startswith("all")
    want10, want11 = set(), set()
    # configuration dimension: a custom-checks file that fixes the expected RDH version (then every RDH is compared with it instead of with the first RDH of its link)
    cfg_version = None
    if rng.random() < 0.3:
        cfg_version = version if rng.random() < 0.8 else 13 - version
    for l in range(nlinks):
        rr = refmodel.RdhRunning()
        first_id = links[l][0]["header_id"] if cfg_version is None else cfg_version
        for i, f in enumerate(links[l]):
            if not refmodel.rdh_sanity_ok(f, first_id, its_mode):
                want10.add(offsets[(l, i)])
            if running and not rr.ok(f):
                want11.add(offsets[(l, i)])
    path = os.path.join(wd, "c%d.raw" % case)
    write_file(path, bytes(data))
    use_stdin = rng.random() < 0.2
    argv = ([] if use_stdin else [path]) + obs.MODES[mode] + (["-m"] if rng.random() < 0.3 else [])
    if cfg_version is not None:
        tp = os.path.join(wd, "c%d.toml" % case)
        write_file(tp, "rdh_version = %d\n" % cfg_version)
        argv += ["-c", tp]
    r = obs.run(exe, argv, stdin_path=path if use_stdin else None, workdir=wd, stats="json", tag="c%d" % case)
    os.unlink(path)
    if cfg_version is not None:
        os.unlink(tp)
    desc = "%d RDHs on %d links, faults %s, check %s%s" % (len(order), nlinks, faults[:6], mode, "" if cfg_version is None else ", rdh_version = %d configured" % cfg_version)
    out["sample"] = desc

    def bad(what):
        d = save_replay("C10", "case%d" % case, {"input.raw": bytes(data), "stderr.txt": r.stderr, "stats.json": r.stats_raw or b""},
                        dict(seed=seed, case=case, argv=argv, what=what, desc=desc))
        out["viol"] = ("rdh:%s:%s" % (mode, what.split(":")[0]), "%s: %s" % (desc, what), d)
        return out
    if r.abnormal() or r.stats is None:
        return bad("abnormal end: %s" % r.abnormal())
    if r.stats["error_stats"].get("fatal_error"):
        return out
    got10 = set(m.offset for m in r.reported() if m.code == "10")
    got11 = set(m.offset for m in r.reported() if m.code == "11")
    out["verdicts"] = 2 * len(order)
    out["errs"] = len(want10) + len(want11)
    if got10 != want10:
        x = sorted(got10 ^ want10)[0]
        return bad("E10: RDH at 0x%X is %s by the sanity check but %s by the documented rules (%d reported, %d expected)" % (
            x, "reported" if x in got10 else "accepted", "valid" if x in got10 else "invalid", len(got10), len(want10)))
    if got11 != want11:
        x = sorted(got11 ^ want11)[0]
        return bad("E11: RDH at 0x%X is %s by the running check but %s by the documented rules (%d reported, %d expected)" % (
            x, "reported" if x in got11 else "accepted", "consistent" if x in got11 else "inconsistent", len(got11), len(want11)))
    others = [m for m in r.reported() if m.code not in ("10", "11")]
    if others:
        return bad("other: unexpected message on RDH-only data: %s" % others[0].text[:100])
    out["key"] = (mode, nlinks, tuple(sorted(set(faults)))[:5], bool(want10), bool(want11))
    return out


def run(res):
    exe = build.fastpasta("rel")
    wd = scratch("c10")
    quick = res.tier == "quick"
    shards = 2 if quick else 16
    js = pmap(lambda i: inproc.check(res, "rdh", ["--seed", res.seed * 100 + i, "--bases", 40 if quick else 150, "--walks", 200 if quick else 1500,
                                                   "--walk-len", 300 if quick else 2000], "rdh-inproc", "RDH validators in-process"), range(shards))
    # scale: a few very long walks on one link (every per-link counter / index beyond 65 536 RDHs), bit sweeps skipped
    js.append(inproc.check(res, "rdh", ["--seed", res.seed * 100 + 77, "--bases", 1, "--walks", 2 if quick else 12, "--walk-len", 70000], "rdh-inproc", "RDH validators in-process (long walks)"))
    for j in js:
        if j:
            res.evaluations += j["verdicts"]
            res.count("inproc_verdicts", j["verdicts"])
            res.count("inproc_bit_flips", j["bit_flips"])
            res.count("inproc_reference_error_verdicts", j["reference_error_verdicts"])
            res.extra["bits_whose_flip_breaks_sanity"] = j["bits_that_break_sanity"]
            res.extra["bits_whose_flip_breaks_running"] = j["bits_that_break_running"]
            res.extra["sanity_checked_bit_positions"] = j["sanity_bits"]
            if j["bits_that_break_sanity"] < 100:
                res.inconclusive.append("only %d bit positions affected the sanity verdict" % j["bits_that_break_sanity"])
    n = 200 if quick else 5000
    for o in pmap(one_case, [(exe, wd, res.seed, c, res.tier) for c in range(n)]):
        res.evaluations += 1
        res.count("cli_verdicts", o["verdicts"])
        res.count("cli_reference_error_verdicts", o["errs"])
        if o["viol"]:
            res.violation(*o["viol"])
        if o["key"] and o["errs"]:
            res.nontrivial.add(o["key"])
        if o["sample"]:
            res.sample(o["sample"])
    res.rule = ("in-process: conforming RDH sequences x each of the 512 bits flipped at 5 positions x both validator configurations + boundary values + random walks; "
                "CLI: RDH-only files (1..3 links, 30..10^4 headers) with injected faults x {sanity, all, sanity its, all its}; non-trivial = distinct (mode, links, fault kinds, "
                "E10 expected?, E11 expected?) with >= 1 expected error")
    res.min_nontrivial = 40 if quick else 200
    res.assumptions = ["sequences begin at an HBF start (pages 0, 1): the page-counter increment learnt from the second RDH is 1 unless a fault hits it",
                       "documented rules as listed in DESIGN.md §1 (bc <= 0xdeb, detector-field bits 23:12)"]
