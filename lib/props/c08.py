"""C08 - filtered output is exact, lossless and partitions the input.

Observed: bytes of the -o file / stdout, rdhs_filtered in the statistics file, the `RDHs` row of the Filter Stats table.
Oracle: reference filter over the independent chain walk."""
import os
import build, obs, frame, rdh as R
from common import pmap, scratch, rng_for, save_replay, write_file

LEVEL = "exploration"


def ref_filter(pkts, kind, val):
    return [p for p in pkts if R.matches(p.f, kind, val)]


def gate_ok(f):
    """first RDH0 passes the start-up gate (needed to read an output back in)"""
    fee = f["fee_id"]
    return (3 <= f["header_id"] <= 100 and f["header_size"] == 0x40 and f["priority_bit"] == 0 and f["rdh0_reserved"] == 0
            and fee & 0x8CC0 == 0 and (fee & 0x3F) <= 47 and ((fee >> 12) & 7) <= 6 and f["system_id"] in frame.KNOWN_SYSTEM_IDS)


def one_case(args):
    exe, wd, seed, case, tier = args
    rng = rng_for(seed, case)
    out = dict(case=case, viol=None, events=0, key=None, sample=None, parts=0, idem=0)
    npk = rng.choice([1, 2, 50, 99, 100, 101, 199, 200, 201, 250, rng.randrange(1, 120), rng.randrange(1, 400)])
    if tier == "thorough" and rng.random() < 0.03:
        npk = rng.choice([1000, 5000, 20000])
    if case == 0:
        npk = 70000     # scale: one large case per run (> 65 536 packets, several MB of output, hundreds of reader batches and writer flushes)
    sane = rng.random() < 0.5
    pkts = frame.generate(rng, npk, payload=rng.choice(["random", "random", "none"]), max_payload=(None if npk <= 400 else 64), sane_headers=sane)
    kind = rng.choice(["link", "fee", "stave"])
    base_val = None
    if npk >= 4 and rng.random() < 0.5:
        # near-aliases of one identifier: values that differ from it in exactly one bit, inside the compared field (must be told apart) and, for the
        # stave filter, outside it (fibre bits 8..9: same stave, must match)
        base = pkts[rng.randrange(1, npk)].f
        for _ in range(rng.randrange(2, 8)):
            q = pkts[rng.randrange(1, npk)].f
            if kind == "link":
                q["link_id"] = base["link_id"] ^ (1 << rng.randrange(8))
            else:
                q["fee_id"] = base["fee_id"] ^ (1 << rng.choice([0, 1, 2, 3, 4, 5, 5, 8, 9, 12, 13, 14]))
        base_val = {"link": base["link_id"], "fee": base["fee_id"], "stave": base["fee_id"] & 0x703F}[kind]
    data = frame.serialize(pkts)
    path = os.path.join(wd, "c%d.raw" % case)
    write_file(path, data)
    allv = []
    for p in pkts:
        v = {"link": p.f["link_id"], "fee": p.f["fee_id"], "stave": p.f["fee_id"] & 0x703F}[kind]
        if v not in allv:
            allv.append(v)
    partition = rng.random() < 0.35 and len(allv) <= 12
    vals = list(allv) if partition else [base_val if base_val is not None and rng.random() < 0.7 else rng.choice(allv)]
    if rng.random() < 0.15:
        absent = {"link": [v for v in range(256) if v not in allv], "fee": [v for v in range(1, 65536, 257) if v not in allv],
                  "stave": [R.fee_id(l, s) for l in range(8) for s in range(0, 64, 7) if R.fee_id(l, s) not in allv]}[kind]
        if absent:
            vals.append(rng.choice(absent))
    use_stdin = rng.random() < 0.5
    to_stdout = rng.random() < 0.5
    desc = "%d packets, filter %s over %d value(s)%s, %s -> %s, headers %s" % (npk, kind, len(vals), " (all: partition)" if partition else "",
                                                                                 "pipe" if use_stdin else "file", "stdout" if to_stdout else "file", "valid" if sane else "arbitrary")
    out["key"] = (kind, use_stdin, to_stdout, min(npk, 202), partition, sane, base_val is not None)
    out["sample"] = desc
    total = 0
    try:
        for v in vals:
            fargs = R.filter_args(kind, v)
            argv = ([] if use_stdin else [path]) + fargs + (["-o", "stdout"] if to_stdout and rng.random() < 0.5 else [])
            r = obs.run(exe, argv, stdin_path=path if use_stdin else None, workdir=wd, stats="json",
                        out_name=(not to_stdout), tag="c%d" % case, prefill_out=(b"\x5a" * (len(data) + 4096) if case % 2 == 0 else None), stdin_chunk=(rng.choice([None, None, 13, 512, 8191, 8193]) if use_stdin and npk <= 400 else None),
                        out_limit=(3 * len(data) + (16 << 20)) if npk >= 1000 else None)
            got = r.stdout if to_stdout else r.out_file
            exp = ref_filter(pkts, kind, v)
            want = b"".join(R.pack(p.f) + p.payload for p in exp)

            def bad(what):
                d = save_replay("C08", "case%d" % case, {"input.raw": data, "got.bin": got or b"", "expected.bin": want, "stderr.txt": r.stderr},
                                dict(seed=seed, case=case, argv=argv, stdin=use_stdin, what=what, desc=desc, value=v))
                out["viol"] = ("filter:%s" % what.split(":")[0], "%s: value %s: %s" % (desc, v, what), d)
                return out
            ab = r.abnormal()
            if ab:
                return bad("abnormal end: %s" % ab)
            if got is None:
                if exp:
                    return bad("no output: nothing written although %d packets match" % len(exp))
                got = b""
            out["events"] += len(exp)
            if got != want:
                w = R.walk(got)
                return bad("bytes differ: %d bytes / %d well-framed packets written, expected %d bytes / %d packets" % (len(got), len(w), len(want), len(exp)))
            w = R.walk(got)
            if sum(64 + x.payload_len for x in w) != len(got):
                return bad("framing: the output is not well-framed")
            if r.stats is not None and r.stats["rdh_stats"]["rdhs_filtered"] != len(exp):
                return bad("count: rdhs_filtered=%d, %d packets match" % (r.stats["rdh_stats"]["rdhs_filtered"], len(exp)))
            if not to_stdout:
                rows = r.report_rows()
                if "RDHs" in rows and rows["RDHs"] != str(len(exp)):
                    return bad("report: Filter Stats RDHs=%s, %d packets match" % (rows["RDHs"], len(exp)))
            total += len(got)
            # idempotence: filter the output again with the same filter (needs a recognisable first RDH)
            if exp and gate_ok(exp[0].f) and rng.random() < 0.5:
                p2 = os.path.join(wd, "c%d.out.raw" % case)
                write_file(p2, got)
                r2 = obs.run(exe, [p2] + fargs, workdir=wd, out_name=True, tag="c%di" % case)
                os.unlink(p2)
                if r2.abnormal():
                    return bad("refilter: abnormal end %s" % r2.abnormal())
                if (r2.out_file or b"") != got:
                    return bad("refilter: filtering the output again gives %d bytes, not the same %d bytes" % (len(r2.out_file or b""), len(got)))
                out["idem"] += 1
        if partition:
            out["parts"] = 1
            if total != len(data):
                out["viol"] = ("filter:partition", "%s: outputs over all %d values hold %d bytes, the input has %d" % (desc, len(vals), total, len(data)),
                               save_replay("C08", "case%d" % case, {"input.raw": data}, dict(seed=seed, case=case, desc=desc)))
    finally:
        os.unlink(path)
    return out


def mega_case(args):
    """scale: more than 2^20 matching packets (1.2 million RDH-only packets, 77 MB): beyond every buffer threshold of the writer. The input is a block of
    10 000 generated packets repeated 120 times, so the expected output is the filtered block repeated 120 times."""
    import hashlib
    exe, wd, seed, case, tier = args
    rng = rng_for(seed, 700000 + case)
    out = dict(case=case, viol=None, events=0, key=None, sample=None, parts=0, idem=0)
    block = frame.generate(rng, 10000, payload="none", sane_headers=True)
    sysid = block[0].f["system_id"]
    for i, q in enumerate(block):
        q.f["system_id"] = sysid
        q.f["link_id"] = 1 if i % 16 == 15 else 0
    bdata = frame.serialize(block)
    reps = 120
    want_block = b"".join(bdata[q.offset:q.offset + 64] for q in block if q.f["link_id"] == 0)
    path = os.path.join(wd, "m%d.raw" % case)
    with open(path, "wb") as f:
        for _ in range(reps):
            f.write(bdata)
    to_stdout = case % 2 == 1
    use_stdin = (case // 2) % 2 == 1
    desc = "mega: %d packets (%d match), filter link 0, %s -> %s" % (10000 * reps, reps * (10000 - 625), "pipe" if use_stdin else "file", "stdout" if to_stdout else "file")
    out["sample"] = desc
    out["key"] = ("mega", use_stdin, to_stdout)
    try:
        r = obs.run(exe, ([] if use_stdin else [path]) + ["-f", "0"], stdin_path=path if use_stdin else None, workdir=wd, stats="json", out_name=(not to_stdout), tag="m%d" % case, timeout=600,
                    out_limit=3 * len(want_block) * reps + (16 << 20))
    finally:
        os.unlink(path)
    got = r.stdout if to_stdout else (r.out_file or b"")
    out["events"] = reps * (10000 - 625)
    what = None
    if r.abnormal():
        what = "abnormal end: %s" % r.abnormal()
    elif len(got) != len(want_block) * reps:
        what = "bytes differ: %d bytes written, expected %d (%d packets missing / extra)" % (len(got), len(want_block) * reps, (len(want_block) * reps - len(got)) // 64)
    elif hashlib.sha256(got).digest() != hashlib.sha256(want_block * reps).digest():
        what = "bytes differ: same length, different content"
    elif r.stats is not None and r.stats["rdh_stats"]["rdhs_filtered"] != reps * (10000 - 625):
        what = "count: rdhs_filtered=%d, %d packets match" % (r.stats["rdh_stats"]["rdhs_filtered"], reps * (10000 - 625))
    if what:
        d = save_replay("C08", "mega%d" % case, {"stderr.txt": r.stderr[-20000:]}, dict(seed=seed, case=case, what=what, desc=desc, note="input regenerated from (seed, case): mega_case"))
        out["viol"] = ("filter:%s" % what.split(":")[0], "%s: %s" % (desc, what), d)
    return out


def run(res):
    exe = build.fastpasta("rel")
    wd = scratch("c08")
    n = 250 if res.tier == "quick" else 12000
    outs = pmap(one_case, [(exe, wd, res.seed, c, res.tier) for c in range(n)])
    outs += pmap(mega_case, [(exe, wd, res.seed, c + res.seed, res.tier) for c in range(1 if res.tier == "quick" else 4)], workers=2)
    for o in outs:
        res.evaluations += 1
        res.count("packets_compared", o["events"])
        res.count("partition_cases", o["parts"])
        res.count("refilter_checks", o["idem"])
        if o["viol"]:
            res.violation(*o["viol"])
        if o["events"] > 0:
            res.nontrivial.add(o["key"])
        res.sample(o["sample"])
    res.rule = ("G-frame streams x filter kind x value (present / every value = partition / absent) x {file, pipe} x {file, stdout}; output compared byte for byte "
                "with the reference filter, re-walked, re-filtered; one mega case per run (1.2 million packets, > 2^20 of them matching); non-trivial = distinct (filter kind, source, destination, count class, partition?, header class) "
                "with >= 1 matching packet")
    res.min_nontrivial = 30 if res.tier == "quick" else 100
    res.assumptions = ["well-framed input, first RDH recognised; re-filtering only when the first matching packet is itself recognisable"]
