"""C06 - each link is validated as if it were alone.

Per-link normalised error lists are compared across: the stream as generated, other merges of the same per-link sequences, the physically
extracted single-link file, --filter-link / --filter-fee / --filter-its-stave runs and an in-process single-threaded pass through one LinkValidator."""
import os, re
import build, obs, gen, mutate, inproc, rdh as R
from common import pmap, scratch, rng_for, save_replay, write_file

LEVEL = "exploration"
LEAD = re.compile(r"^0x([0-9A-F]+):")
END_AT = re.compile(r"ending at 0x([0-9A-F]+)")


def gate_ok(f):
    fee = f["fee_id"]
    return (3 <= f["header_id"] <= 100 and f.get("header_size", 0x40) == 0x40 and f.get("priority_bit", 0) == 0 and f.get("rdh0_reserved", 0) == 0
            and fee & 0x8CC0 == 0 and (fee & 0x3F) <= 47 and ((fee >> 12) & 7) <= 6 and f.get("system_id", 32) == 32)


def index_of(s):
    """sorted list of (start, end, link, idx) for the current serialization"""
    spans = []
    for l, lp in enumerate(s.pkts):
        for i, p in enumerate(lp):
            if p.offset is not None:
                spans.append((p.offset, p.offset + p.full["offset_to_next"], l, i))
    spans.sort()
    return spans


def rel(spans, off):
    import bisect
    k = bisect.bisect_right(spans, (off, 1 << 62, 0, 0)) - 1
    if k < 0 or not (spans[k][0] <= off < spans[k][1]):
        return None
    return spans[k][2], spans[k][3], off - spans[k][0]


def per_link(msgs, spans):
    """{link: [(pkt idx, delta, normalised text)]} ; None if a message cannot be attributed"""
    res = {}
    for m in msgs:
        if m.offset is None:
            return None
        r = rel(spans, m.offset)
        if r is None:
            return None
        l, i, d = r
        t = LEAD.sub("@:", m.text, count=1)

        def endrepl(mm):
            e = rel(spans, int(mm.group(1), 16))
            return "ending at <%s>" % (("pkt %d + %d" % (e[1], e[2])) if e and e[0] == l else "?")
        t = END_AT.sub(endrepl, t)
        res.setdefault(l, []).append((i, d, t))
    for l in res:
        res[l].sort(key=lambda x: (x[0], x[1]))
    return res


def one_case(args):
    exe, wd, seed, case, tier = args
    rng = rng_for(seed, case)
    out = dict(case=case, viol=None, compared=0, nontrivial=0, skipped_gate=0, key=None, sample=None, inproc=0)
    mode = rng.choice(["all", "all_its", "all_its", "all_its_stave", "all_its_stave", "sanity_its"])
    # in stave mode validators are per FEE id, so several FEE ids may sit behind one link id
    # planted cross-link situations (stratified): 1 = more than one reader batch (> 100 packets) with an unknown system id on non-first packets, one of them
    # at a global index that is a multiple of the batch size; 2 = unreadable (over-padded) payloads on several links right after a page that ended in the middle of a frame
    plant = case % 3
    # scale layouts (every 8th case): "gap" = one link is silent for more than 3600 packets of another link in the middle of one of its HBFs;
    # "fat" = more than 100 consecutive packets of one link carry ~9 kB each (close to 1 MB in one reader batch) between the two halves of another link
    scale = {7: "gap", 15: "fat"}.get(case % 16)
    gkw = dict(hbfs=rng.choice([12, 20]), max_pages=2) if plant == 1 else dict(hbfs=rng.choice([3, 4]), p_split=0.6, max_pages=4) if plant == 2 else dict(hbfs=rng.choice([2, 3]))
    if scale:
        plant = 0
        gkw = dict(hbfs=1900, max_pages=2, hits="none") if scale == "gap" else dict(hbfs=120, max_pages=2, hits="few")
    s = gen.generate(rng.getrandbits(40), n_links=2 if scale else rng.choice([2, 3, 4, 6]),
                     shared_link_ids=(mode == "all_its_stave" and rng.random() < 0.5 and not scale), merge=rng.choice(["roundrobin", "random", "hbf", "contiguous"]), **gkw)
    if scale:
        A, B = s.pkts[0], s.pkts[1]
        # link 0 keeps a few whole HBFs only
        k = next((i for i in range(40, len(A)) if A[i - 1].f["stop_bit"] == 1), len(A))
        del A[k:]
        j = next((i for i in range(3, len(A) - 1) if A[i].f["stop_bit"] == 0), None)      # a page that is followed by more pages of the same HBF
        if j is None:
            return out
        for q in A[j + 1:][-6:]:
            q.f["bc"] = 0xFFF                 # findings on link 0 late in the stream
        if scale == "fat":
            import its as _its
            d_any = next((w for q in B for kd, w in q.words if kd == "DATA"), None)
            if d_any is None:
                return out
            for q in B[10:170]:
                # (pages without data words get them too: not legal there, but the same in every layout - the comparison is relational)
                d = next((w for kd, w in q.words if kd == "DATA"), d_any)
                slot = 16 if s.fmt == 0 else 10
                room = (9300 - len(q.words) * slot) // slot
                at = next((i for i, (kd, w) in enumerate(q.words) if kd == "DATA"), max(0, len(q.words) - 1))
                q.words[at:at] = [["DATA", d] for _ in range(max(0, room))]
            gap_len = len(B)
        else:
            gap_len = 3700
        s.order = [(0, i) for i in range(j + 1)] + [(1, i) for i in range(min(gap_len, len(B)))] + [(0, i) for i in range(j + 1, len(A))] + [(1, i) for i in range(min(gap_len, len(B)), len(B))]
    nm = rng.choice([0, 1, 2, 4, 10]) if not scale else rng.choice([0, 1])
    muts = []
    for _ in range(nm):
        m = "noop"
        for _ in range(5):
            t = s.copy()
            m = mutate.mutate_once(rng, t, allow=("rdh", "word", "word", "pad", "packet"))
            if "fee_id" in m or "link_id" in m or m == "noop":
                continue
            s = t
            break
        muts.append(m)
    planted = []
    if plant == 1:
        firsts = set()
        seen = set()
        for k, (l, i) in enumerate(s.order):
            key = (l, s.pkts[l][i].f["fee_id"])
            if key not in seen:
                seen.add(key)
                firsts.add((l, i))
        cand = [k for k in range(100, len(s.order), 100)] + [rng.randrange(1, len(s.order)) for _ in range(2)]
        for k in cand:
            l, i = s.order[k]
            if (l, i) not in firsts and i > 0:
                s.pkts[l][i].f["system_id"] = rng.choice([0, 1, 99, 200, 255])
                planted.append("unknown system id at global packet %d" % k)
    elif plant == 2:
        for l, lp in enumerate(s.pkts):
            c = [i for i in range(1, len(lp)) if lp[i - 1].words and lp[i - 1].words[-1][0] == "TDT" and lp[i - 1].words[-1][1][8] & 1 == 0]
            if c and rng.random() < 0.8:
                i = rng.choice(c)
                lp[i].pad = rng.choice([16, 20, 33])
                planted.append("over-padded payload on link index %d packet %d (mid-frame)" % (l, i))
    # the first packet of every link / FEE id must be recognisable on its own (filtered and extracted runs start with it)
    first_seen = set()
    for l, i in s.order:
        f = s.pkts[l][i].f
        if (l, f["fee_id"]) not in first_seen:
            first_seen.add((l, f["fee_id"]))
            if f.get("system_id", 32) != 32:
                return out
    muts = muts + planted
    margs = obs.MODES[mode]
    desc = "%d links, %d packets, %d mutations %s, check %s" % (len(s.links), sum(len(x) for x in s.pkts), nm, muts[:3], mode)
    out["sample"] = desc
    files = {}

    def run_layout(st, tag, extra=()):
        data = st.serialize()
        path = os.path.join(wd, "c%d_%s.raw" % (case, tag))
        write_file(path, data)
        r = obs.run(exe, [path] + margs + list(extra), workdir=wd, stats="json", tag="c%d" % case)
        files[tag + ".raw"] = data
        os.unlink(path)
        return r, index_of(st), data

    def bad(what, r=None):
        if r is not None:
            files["stderr.txt"] = r.stderr
        d = save_replay("C06", "case%d" % case, files, dict(seed=seed, case=case, what=what, desc=desc, mode=mode, mutations=muts))
        out["viol"] = ("isolation:%s:%s" % (mode, what.split(":")[0]), "%s: %s" % (desc, what), d)
        return out

    def first_ok(st):
        l0, i0 = st.order[0]
        return gate_ok(st.pkts[l0][i0].f)

    # (a) as generated: the reference (must be a recognised input, like every other layout)
    for _ in range(6):
        if first_ok(s):
            break
        mutate.remerge(rng, s)
    else:
        return out
    r0, spans0, data0 = run_layout(s, "a")
    if r0.abnormal() or r0.stats is None:
        return bad("abnormal end of the full run: %s" % r0.abnormal(), r0)
    if r0.stats["error_stats"].get("fatal_error"):
        # a fatal error ends the validation of every link. It is only legitimate if the input as a whole is ill-framed (independent walk of the
        # offset chain); in a well-framed stream, whose first packet is recognised, no link's content may stop the others
        w = R.walk(data0)
        well = bool(w) and all(x.complete and x.f["memory_size"] <= x.f["offset_to_next"] and x.f["memory_size"] >= 64 for x in w) and \
            w[-1].offset + w[-1].f["offset_to_next"] == len(data0)
        if well:
            return bad("fatal: the full run stops with a fatal error although the stream is well-framed (%d packets): %s" % (len(w), str(r0.stats["error_stats"]["fatal_error"])[:100]), r0)
        return out
    ref = per_link(r0.reported(), spans0)
    if ref is None:
        return bad("attribution: a message of the full run lies outside every packet", r0)

    def same(l, other, what, r=None):
        a = list(ref.get(l, []))
        b = other
        out["compared"] += 1
        if a:
            out["nontrivial"] += 1
        if a != b:
            k = next((j for j in range(min(len(a), len(b))) if a[j] != b[j]), min(len(a), len(b)))
            return bad("%s: link index %d (link id %d): %d errors in the full run, %d %s; first difference at #%d: %s vs %s" % (
                what.split(" ")[0], l, s.links[l].link_id, len(a), len(b), what, k, (a[k:k + 1] or ["-"])[0], (b[k:k + 1] or ["-"])[0]), r)
        return None

    # (b) two other merges
    for j in range(2):
        t = s.copy()
        mutate.remerge(rng, t)
        if not first_ok(t):
            out["skipped_gate"] += 1
            continue
        r, spans, _ = run_layout(t, "b%d" % j)
        if r.abnormal() or r.stats is None:
            return bad("abnormal end of a re-merged run: %s" % r.abnormal(), r)
        got = per_link(r.reported(), spans)
        if got is None:
            return bad("attribution: message outside every packet in a re-merged run", r)
        for l in range(len(s.links)):
            v = same(l, got.get(l, []), "after re-merging the same per-link sequences", r)
            if v:
                return v
    # (c) extracted single-link files, (d) filters, (e) in-process pass
    for l in range(len(s.links)):
        if not s.pkts[l]:
            continue
        lk = s.links[l]
        single = s.single_link(l)
        if gate_ok(single.pkts[0][0].f):
            r, spans, _ = run_layout(single, "c%d" % l)
            if r.abnormal() or r.stats is None:
                return bad("abnormal end on the extracted link: %s" % r.abnormal(), r)
            got = per_link(r.reported(), spans)
            v = same(l, (got or {}).get(0, []), "in the physically extracted single-link file", r)
            if v:
                return v
        else:
            out["skipped_gate"] += 1
        for kind, val in (("link", lk.link_id), ("fee", lk.fee), ("stave", lk.fee)):
            if rng.random() < 0.5:
                continue
            r, spans, _ = run_layout(s, "a", R.filter_args(kind, val))
            if r.abnormal() or r.stats is None:
                return bad("abnormal end with %s filter: %s" % (kind, r.abnormal()), r)
            got = per_link(r.reported(), spans)
            if got is None:
                return bad("attribution: message outside every packet with a %s filter" % kind, r)
            v = same(l, got.get(l, []), "with --filter-%s %s" % (kind, val), r)
            if v:
                return v
        # (e) one sequential pass through one validator
        path = os.path.join(wd, "c%d_e.raw" % case)
        write_file(path, data0)
        by = "fee" if mode == "all_its_stave" else "link"
        rc, j, err, cmd = inproc.run("linkpass", [path, by, lk.fee if by == "fee" else lk.link_id, "--"] + margs)
        os.unlink(path)
        if j is None:
            if rc is not None and (rc < 0 or "panicked" in err):
                return bad("in-process pass crashed: %s" % err[-300:])
            continue
        got = per_link([obs.Msg(t) for t in j["errors"]], spans0)
        out["inproc"] += 1
        v = same(l, (got or {}).get(l, []), "in the in-process sequential pass through one validator")
        if v:
            return v
    out["key"] = (mode, len(s.links), nm, out["nontrivial"] > 0, plant, scale)
    return out


def run(res):
    exe = build.fastpasta("rel")
    build.harness()
    wd = scratch("c06")
    n = 48 if res.tier == "quick" else 4000
    comp = nont = 0
    for o in pmap(one_case, [(exe, wd, res.seed, c, res.tier) for c in range(n)]):
        res.evaluations += 1
        comp += o["compared"]
        nont += o["nontrivial"]
        res.count("skipped_unrecognised_extractions", o["skipped_gate"])
        res.count("inprocess_passes", o["inproc"])
        if o["viol"]:
            res.violation(*o["viol"])
        if o["key"] and o["nontrivial"]:
            res.nontrivial.add((o["case"],))
        if o["sample"]:
            res.sample(o["sample"])
    res.extra.update(link_comparisons=comp, nontrivial_link_comparisons=nont)
    if comp and nont < 0.2 * comp:
        res.inconclusive.append("only %d of %d link comparisons involved a link with errors" % (nont, comp))
    res.rule = ("multi-link G-conf streams with 0..10 structure-aware mutations (identifiers of links untouched) x {all, all its, all its-stave, sanity its}, a third each with planted cross-link situations (unknown system id on non-first packets incl. global index 100k in streams "
                "of > 100 packets; over-padded payloads on several links right after a split frame) and, every 8th case, a scale layout (a link silent for > 3600 packets of another link inside one of its HBFs; "
                "> 100 consecutive packets of ~9 kB between the halves of another link); per-link lists normalised to "
                "(packet index in link, delta) compared between full run, 2 re-merges, extracted file, filters, in-process pass; non-trivial = stream with >= 1 compared link that has errors")
    res.min_nontrivial = 12 if res.tier == "quick" else 300
    res.assumptions = ["an extracted / filtered stream is only comparable if its first RDH0 passes the start-up gate (else skipped, the in-process pass still covers the link)",
                       "link id and FEE id fields are not mutated (membership of packets in links is fixed)"]
