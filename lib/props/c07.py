"""C07 - reported offsets and quoted bytes are truthful.

Observed: every error message (statistics file, and stderr): leading offset, `[b0 .. b9]` dump, `current :` / `previous:` RDH rows,
`ending at` offsets. Oracle: the bytes of the input file at that offset + the independent chain walk."""
import os, re
import build, obs, frame, gen, mutate, rdh as R
from common import pmap, scratch, rng_for, save_replay, write_file

LEVEL = "exploration"
END_AT = re.compile(r"ending at 0x([0-9A-F]+)")


def check_messages(msgs, data, walk, flt, by_fee=False):
    """Returns (n_checked, error string or None)."""
    pk_by_off = {p.offset: p for p in walk}
    slots = {}
    for p in walk:
        slot = 16 if p.f["data_format"] == 0 else 10
        for k in range(p.payload_len // slot + 1):
            o = p.payload_off + k * slot
            if o + 10 <= p.payload_off + p.payload_len:
                slots[o] = p
    per_link_prev = {}
    order = {}
    for idx, p in enumerate(walk):
        order[p.offset] = idx
    n = 0
    for m in msgs:
        n += 1
        if m.offset is None:
            return n, "no leading offset: %r" % m.text[:100]
        if m.offset >= len(data):
            return n, "offset 0x%X lies outside the input (%d bytes): %s" % (m.offset, len(data), m.text[:80])
        first = m.text.split("\n", 1)[0]
        is_rdh = m.code in ("10", "11") or "Payload error following RDH" in first
        if is_rdh:
            p = pk_by_off.get(m.offset)
            if p is None:
                return n, "RDH message at 0x%X, which is not the start of an RDH: %s" % (m.offset, first[:100])
            if flt and not R.matches(p.f, flt[0], flt[1]):
                return n, "RDH message at 0x%X about a packet the filter excludes" % m.offset
            if "Payload error following RDH" in first:
                pl = data[p.payload_off:p.payload_off + p.payload_len]
                run = len(pl) - len(pl.rstrip(b"\xff"))
                if run <= 15:
                    return n, "`Payload error` (over-padding) located at 0x%X, but the payload of that packet ends in only %d bytes of 0xFF" % (m.offset, run)
            cur = [l for l in m.text.split("\n") if l.startswith("  current :")]
            prev = [l for l in m.text.split("\n") if l.startswith("  previous:")]
            if cur:
                row = "".join(cur[0].replace("<--- Error detected here", "").split()[2:])
                if row != "".join(R.row_fields(p.f)):
                    return n, "`current :` row of the message at 0x%X shows %s, the header at that offset decodes to %s" % (m.offset, row, "".join(R.row_fields(p.f)))
            if prev:
                # the (up to two) previous RDHs of the same validator: packets of the same link before this one
                same = [q for q in walk if (q.f["fee_id"] == p.f["fee_id"] if by_fee else q.f["link_id"] == p.f["link_id"]) and q.offset < p.offset and (not flt or R.matches(q.f, flt[0], flt[1]))]
                cand = ["".join(R.row_fields(q.f)) for q in same[-2:]]
                got = ["".join(l.split()[1:]) for l in prev]
                if got != cand[-len(got):]:
                    return n, "`previous:` rows of the message at 0x%X are not the preceding headers of that link" % m.offset
            continue
        d = m.dump()
        if m.offset not in slots:
            return n, "message at 0x%X: not the start of a payload word slot (nor an RDH): %s" % (m.offset, first[:110])
        if flt and not R.matches(slots[m.offset].f, flt[0], flt[1]):
            return n, "word message at 0x%X inside a packet the filter excludes" % m.offset
        if d is not None and d != data[m.offset:m.offset + 10]:
            return n, "message at 0x%X quotes [%s], the input holds [%s] there" % (m.offset, d.hex(" "), data[m.offset:m.offset + 10].hex(" "))
        e = END_AT.search(first)
        if e:
            eo = int(e.group(1), 16)
            if eo not in slots or eo < m.offset:
                return n, "frame message at 0x%X: `ending at 0x%X` is not a later word slot" % (m.offset, eo)
    return n, None


def one_case(args):
    exe, wd, seed, case, tier = args
    rng = rng_for(seed, case)
    out = dict(case=case, viol=None, events=0, key=None, sample=None)
    kind = rng.choice(["frame_its", "frame_its_sane", "conf_mut", "conf_mut", "frame_rdh"])
    if kind == "conf_mut":
        for attempt in range(20):
            s = gen.generate(rng.getrandbits(40))
            muts = [mutate.mutate_once(rng, s, allow=("rdh", "word", "word", "pad")) for _ in range(rng.choice([1, 2, 4, 8, 20]))]
            mutate.remerge(rng, s)
            if mutate.layout_agrees(s) and all(p.f.get("system_id", 32) in frame.KNOWN_SYSTEM_IDS for lp in s.pkts for p in lp):
                break
        else:
            return out
        data = s.serialize()
        desc0 = "G-conf + %d mutations" % len(muts)
    elif kind == "frame_rdh":
        fp = frame.generate(rng, rng.choice([5, 50, 150, 201]), payload="none")
        data = frame.serialize(fp)
        desc0 = "G-frame RDH only, arbitrary headers"
    else:
        big_pl = rng.random() < 0.2        # scale: pages up to the 10 000-byte limit (> 512 words, > 8 KiB)
        fp = frame.generate(rng, rng.choice([3, 20]) if big_pl else rng.choice([3, 20, 80, 150]), payload="its", max_payload=9990 if big_pl else rng.choice([100, 600, 2000]),
                            sane_headers=(kind == "frame_its_sane"), its_only=True)
        for p in fp[1:]:
            if p.f["data_format"] == 2 and rng.random() < 0.2:
                p.f["data_format"] = rng.choice([1, 3, 255])   # still 10-byte layout
        data = frame.serialize(fp)
        desc0 = "G-frame ITS words (%s headers)" % ("valid" if kind == "frame_its_sane" else "arbitrary")
    walk = R.walk(data)
    if not walk or sum(64 + p.payload_len for p in walk) != len(data):
        return out
    ffwords = 0
    if kind.startswith("frame_its") and rng.random() < 0.4:
        # corrupted words of 0xFF in the MIDDLE of a payload (never its first or last slot): they are words, the words after them keep their offsets
        b = bytearray(data)
        for p in walk:
            slot = 16 if p.f["data_format"] == 0 else 10
            ns = p.payload_len // slot
            if ns >= 4 and rng.random() < 0.5:
                for _ in range(rng.choice([1, 1, 2])):
                    k = rng.randrange(1, ns - 2)
                    o = p.payload_off + k * slot
                    wdt = slot if rng.random() < 0.5 else 10
                    b[o:o + wdt] = b"\xff" * wdt
                    ffwords += 1
        data = bytes(b)
        desc0 += ", %d mid-payload 0xFF words" % ffwords
    mode = rng.choice(["all", "sanity", "all_its", "all_its", "sanity_its", "all_its_stave", "all_its_stave"])
    flt = None
    if rng.random() < 0.35:
        f0 = rng.choice(walk).f
        k = rng.choice(["link", "fee", "stave"])
        flt = (k, {"link": f0["link_id"], "fee": f0["fee_id"], "stave": f0["fee_id"] & 0x703F}[k])
    path = os.path.join(wd, "c%d.raw" % case)
    write_file(path, data)
    use_stdin = rng.random() < 0.25
    argv = ([] if use_stdin else [path]) + obs.MODES[mode] + (R.filter_args(*flt) if flt else [])
    r = obs.run(exe, argv, stdin_path=path if use_stdin else None, workdir=wd, stats="json", tag="c%d" % case)
    os.unlink(path)
    desc = "%s, %d packets, check %s, filter %s" % (desc0, len(walk), mode, flt)
    out["sample"] = desc

    def bad(what):
        d = save_replay("C07", "case%d" % case, {"input.raw": data, "stats.json": r.stats_raw or b"", "stderr.txt": r.stderr},
                        dict(seed=seed, case=case, argv=argv, what=what, desc=desc))
        out["viol"] = ("offsets:%s" % re.sub(r"0x[0-9A-Fa-f]+|\d+", "N", what)[:60], "%s: %s" % (desc, what), d)
        return out
    ab = r.abnormal()
    if ab:
        return bad("abnormal end: %s" % ab)
    if r.stats is None:
        return out
    if r.stats["error_stats"]["fatal_error"]:
        return out       # (unknown system id etc.) not part of this workload
    msgs = r.reported()
    n, err = check_messages(msgs, data, walk, flt, mode == "all_its_stave")
    out["events"] = n
    if err:
        return bad(err)
    n2, err = check_messages(r.displayed_errors(), data, walk, flt, mode == "all_its_stave")
    if err:
        return bad("stderr: " + err)
    if n:
        out["key"] = (kind, mode, flt[0] if flt else None, tuple(sorted(set(m.code for m in msgs if m.code)))[:6])
    return out


def run(res):
    exe = build.fastpasta("rel")
    wd = scratch("c07")
    n = 400 if res.tier == "quick" else 10000
    for o in pmap(one_case, [(exe, wd, res.seed, c, res.tier) for c in range(n)]):
        res.evaluations += 1
        res.count("messages_checked", o["events"])
        if o["viol"]:
            res.violation(*o["viol"])
        if o["key"]:
            res.nontrivial.add(o["key"])
        if o["sample"]:
            res.sample(o["sample"])
    res.rule = ("G-frame streams (arbitrary headers / known-identifier words with arbitrary bits) and mutated G-conf streams whose slot layout agrees with the "
                "header's data format x 5 check modes x filters; every message's offset, byte dump and RDH rows compared with the input bytes; "
                "non-trivial = distinct (generator, mode, filter kind, set of error codes seen) with >= 1 message")
    res.min_nontrivial = 40 if res.tier == "quick" else 200
    res.assumptions = ["payload layout agrees with the header's data format (inputs where the tool's content sniffing disagrees are the known finding D8, see C12)",
                       "well-framed, recognised input; all system ids known"]
