"""C12 - payloads are cut into words correctly; padding is never a word.

In-process: preprocess_payload against a reference cutter over the (format, word count, 0xFF run) grid. CLI: rows of the data view (count, offsets, bytes);
marker faults reported at base + i*slot; exactly one `Payload error` per over-padded payload, and the next packet judged from the initial state."""
import os
import build, obs, inproc, its, rdh as R, findings
from common import pmap, scratch, rng_for, save_replay, write_file

LEVEL = "exploration"
ORBIT = 0x1234


def rdh(page, stop, fmt, orbit=ORBIT, size=64):
    return dict(R.DEFAULT, header_id=7, fee_id=R.fee_id(0, 3, 0), link_id=2, orbit=orbit, data_format=fmt, pages_counter=page, stop_bit=stop,
                offset_to_next=size, memory_size=size, trigger_type=0x6803)


def payload(words, fmt, ff):
    if fmt == 0:
        return b"".join(w + bytes(6) for w in words) + b"\xff" * ff
    return b"".join(words) + b"\xff" * ff


def body_words(rng, n, marker_at=None, marker="tdt_res"):
    """IHW TDH data* TDT : n words in total (n >= 3)"""
    ws = [its.ihw(0x1FF), its.tdh(0x803, 1, 0, 0, 0, ORBIT)]
    for i in range(n - 3):
        nine = bytes([rng.choice([1, 0x41, 0xA0, 0xE1, 0xFF])] + [rng.getrandbits(8) for _ in range(8)])
        ws.append(its.data_word(0x20 | rng.randrange(9), nine))
    ws.append(its.tdt(packet_done=1))
    if marker_at is not None:
        if marker == "tdt_res" or marker_at == n - 1:
            marker_at = n - 1
            ws[marker_at] = its.tdt(packet_done=1, res66=1)
        else:
            ws[marker_at] = ws[marker_at][:9] + bytes([0x2F])
    return ws, marker_at


def view_case(args):
    exe, wd, seed, case, fmt, counts, ffs = args
    rng = rng_for(seed, case)
    data = bytearray()
    want = []
    page = 0
    family = fmt
    for n in counts:
        for ff in ffs:
            # family "mixed": every packet has its own data format (the layout is a property of the packet, not of the file / batch)
            fmt = family if family in (0, 2) else rng.choice([0, 2])
            if fmt == 0 and n > 620:
                fmt = 2
            ws, _ = body_words(rng, max(n, 3)) if n >= 3 else ([its.ihw(0x1FF), its.tdh(0x803, 1, 1, 0, 0, ORBIT)][:n], None)
            pl = payload(ws, fmt, ff if fmt == 2 else 0)
            off = len(data)
            data += R.pack(rdh(page, 0, fmt, size=64 + len(pl))) + pl
            page += 1
            slot = 16 if fmt == 0 else 10
            want.append((off, "RDH", None))
            want += [(off + 64 + k * slot, None, w) for k, w in enumerate(ws)]
    path = os.path.join(wd, "v%d.raw" % case)
    write_file(path, bytes(data))
    r = obs.run(exe, [path, "view", "its-readout-frames-data", "-d"], workdir=wd, tag="v%d" % case)
    os.unlink(path)
    out = dict(case=case, viol=None, events=0, keys=set((family, min(n, 50), ff) for n in counts for ff in ffs))
    rows = [(o, k if k == "RDH" else None, b) for o, k, b, _ in obs.parse_frames_view(r.stdout)]
    out["events"] = len(rows)
    what = None
    if r.abnormal():
        what = "abnormal end: %s" % r.abnormal()
    elif len(rows) != len(want):
        what = "row count: view shows %d rows, the payloads hold %d RDHs + words" % (len(rows), len(want))
    else:
        for i, (g, w) in enumerate(zip(rows, want)):
            if g != w:
                what = "row %d: view shows %s, expected %s" % (i, g, w)
                break
    if what:
        d = save_replay("C12", "view%d" % case, {"input.raw": bytes(data), "stdout.txt": r.stdout, "stderr.txt": r.stderr}, dict(seed=seed, case=case, fmt=family, counts=counts, ffs=ffs, what=what))
        out["viol"] = ("cut:view:%s" % what.split(":")[0], "format %s, word counts %s, 0xFF runs %s: %s" % (family, counts[:5], ffs[:5], what), d)
    return out


def check_case(args):
    exe, wd, seed, case = args
    rng = rng_for(seed, case, 3)
    fmt = rng.choice([0, 2])
    slot = 16 if fmt == 0 else 10
    kind = rng.choice(["marker", "marker", "overpad", "reset"])
    out = dict(case=case, viol=None, events=0, keys=set())
    data = bytearray()
    expect = []      # (offset, codes set or None for payload error)
    allowed_offsets = set()
    pkts = []
    if kind == "marker":
        for pg in range(rng.choice([1, 3, 6])):
            n = rng.choice([3, 4, 5, 10, 33, 64, 100, 300, 600])
            ff = rng.randrange(16) if fmt == 2 else 0
            at = rng.choice([n - 1, rng.randrange(2, n), 2 if n > 3 else n - 1])
            ws, at = body_words(rng, n, at, rng.choice(["tdt_res", "data_id"]))
            pkts.append((ws, ff, at))
            out["keys"].add((kind, fmt, min(n, 50), ff))
    elif kind == "overpad":
        fmt, slot = 2, 10
        for pg in range(rng.choice([1, 2, 4])):
            n = rng.choice([0, 1, 3, 7, 20])
            ff = rng.choice([16, 17, 20, 31, 40])
            ws, _ = body_words(rng, n) if n >= 3 else ([its.ihw(0x1FF), its.tdh(0x803, 1, 1, 0, 0, ORBIT)][:n], None)
            pkts.append((ws, ff, "PAD"))
            out["keys"].add((kind, fmt, n, ff))
    else:
        fmt, slot = 2, 10
        n = rng.choice([4, 8, 30])
        ws, _ = body_words(rng, n)
        ws[-1] = its.tdt(packet_done=0)                  # packet k: split -> a continuation is expected next
        pkts.append((ws, rng.randrange(16), None))
        w2, _ = body_words(rng, rng.choice([3, 5]))
        pkts.append((w2, rng.choice([16, 24, 40]), "PAD"))   # packet k+1: over-padded: reported once, skipped, state reset
        w3, _ = body_words(rng, rng.choice([3, 6]))          # packet k+2: IHW TDH(cont=0): legal only from the initial state
        pkts.append((w3, rng.randrange(16), "CLEAN"))
        out["keys"].add((kind, fmt, n))
    page = 0
    clean_ranges = []
    for ws, ff, at in pkts:
        pl = payload(ws, fmt, ff)
        off = len(data)
        data += R.pack(rdh(page, 0, fmt, size=64 + len(pl))) + pl
        page += 1
        if at == "PAD":
            expect.append((off, None))
        elif at == "CLEAN":
            clean_ranges.append((off, off + 64 + len(pl)))
        elif at is not None:
            expect.append((off + 64 + at * slot, {"50"} if ws[at][9] == 0xF0 else {"70", "991"}))
        for k in range(len(ws)):
            allowed_offsets.add(off + 64 + k * slot)
        allowed_offsets.add(off)
    path = os.path.join(wd, "k%d.raw" % case)
    write_file(path, bytes(data))
    mode = rng.choice(["all_its", "sanity_its", "all_its_stave"])
    # the verdict may not depend on what is logged or displayed
    vopt = rng.choice([[], [], ["-v", "0"], ["-v", "2"], ["-m"], ["-v", "0", "-m"]])
    r = obs.run(exe, [path] + obs.MODES[mode] + vopt, workdir=wd, stats="json", tag="k%d" % case)
    os.unlink(path)
    what = None
    if r.abnormal() or r.stats is None:
        what = "abnormal end: %s" % r.abnormal()
    else:
        msgs = r.reported()
        out["events"] = len(msgs)
        for off, codes in expect:
            if codes is None:
                n_pe = sum(1 for m in msgs if m.offset == off and "Payload error" in m.text)
                if n_pe != 1:
                    what = "padding: %d `Payload error` messages for the over-padded payload at 0x%X, expected exactly 1" % (n_pe, off)
                    break
                # skipped: no word of that payload is examined
            elif not any(m.offset == off and m.code in codes for m in msgs):
                what = "marker: fault placed in the word at 0x%X is not reported there (messages: %s)" % (off, [(hex(m.offset), m.code) for m in msgs][:6])
                break
        if not what:
            for m in msgs:
                if m.offset not in allowed_offsets:
                    what = "offset: message at 0x%X, which is neither an RDH nor a word of a payload (padding treated as a word?): %s" % (m.offset, m.text[:90])
                    break
        if not what:
            for lo, hi in clean_ranges:
                inside = [m for m in msgs if lo <= m.offset < hi and m.code in ("41", "30", "40", "441", "442", "443", "991", "990", "992", "70")]
                if inside:
                    what = "reset: the packet after an over-padded payload was not judged from the initial state: %s" % inside[0].text[:100]
                    break
            # words of an over-padded payload must not be examined
            for (ws, ff, at), (off, codes) in zip([p for p in pkts if p[2] == "PAD"], [e for e in expect if e[1] is None]):
                hi = off + 64 + 10 * len(ws) + ff
                inside = [m for m in msgs if off < m.offset < hi]
                if inside:
                    what = "skip: words of the over-padded payload at 0x%X were examined: %s" % (off, inside[0].text[:90])
                    break
    if what:
        d = save_replay("C12", "check%d" % case, {"input.raw": bytes(data), "stderr.txt": r.stderr, "stats.json": r.stats_raw or b""}, dict(seed=seed, case=case, kind=kind, mode=mode, what=what))
        out["viol"] = ("cut:%s:%s" % (kind, what.split(":")[0]), "%s (format %d, check %s): %s" % (kind, fmt, mode, what), d)
    return out


def d8_witness(res, exe, wd):
    """Known finding D8: a format 2 payload whose second word starts with six 0x00 bytes is cut in 16-byte slots (content sniffing), while offsets use the header's format."""
    ws = [its.ihw(0x1FF), bytes(6) + bytes([0x10, 0x00, 0x00, 0xE8]), its.tdt(packet_done=1, res66=1)]
    pl = payload(ws, 2, 2)
    data = R.pack(rdh(0, 0, 2, size=64 + len(pl))) + pl
    path = os.path.join(wd, "d8.raw")
    write_file(path, data)
    r = obs.run(exe, [path, "check", "sanity", "its"], workdir=wd, stats="json", tag="d8")
    os.unlink(path)
    for m in (r.reported() or []):
        d = m.dump()
        if d is not None and m.offset is not None and d != data[m.offset:m.offset + 10]:
            res.violation("sniff-vs-header-format", "format 2 payload whose 2nd word starts with six 0x00: message at 0x%X quotes [%s], the input holds [%s]" % (
                m.offset, d.hex(" "), data[m.offset:m.offset + 10].hex(" ")), "findings/sniff-vs-header-format")
            return
    marker = [m for m in (r.reported() or []) if m.code == "50" and m.offset == 64 + 20]
    if not marker:
        res.violation("sniff-vs-header-format", "format 2 payload whose 2nd word starts with six 0x00 bytes: the TDT fault in word 2 is not reported at its offset (payload cut in 16-byte slots)",
                      "findings/sniff-vs-header-format")


def run(res):
    exe = build.fastpasta("rel")
    wd = scratch("c12")
    quick = res.tier == "quick"
    j = inproc.check(res, "payload", ["--seed", res.seed, "--max-words", 40 if quick else 700, "--max-ff", 40, "--samples", 300 if quick else 100], "cut-inproc", "preprocess_payload grid")
    if j:
        res.evaluations += j["payloads"]
        res.extra.update(inproc_payloads=j["payloads"], inproc_over_padded=j["over_padded"], inproc_words_compared=j["words_compared"],
                         residues_mod10=j["residues_mod10"], residues_mod16=j["residues_mod16"], inproc_grid_exhaustive=not quick)
    jobs = []
    c = 0
    counts_all = list(range(0, 41)) + [64, 99, 100, 101, 511, 512, 700] if quick else list(range(0, 701))
    for fmt in (0, 2, "mixed"):
        for i in range(0, len(counts_all), 8):
            counts = [n for n in counts_all[i:i + 8] if fmt != 0 or n <= 620]    # 16-byte slots: 620 words is the largest payload below the 10 000 byte limit
            if not counts:
                continue
            ffs = list(range(0, 16)) if fmt != 0 else [0]
            if max(counts) > 60:
                for n in counts:
                    jobs.append((exe, wd, res.seed, c, fmt, [n], ffs if n < 600 else [f for f in ffs if 10 * n + f <= 9900]))
                    c += 1
            else:
                jobs.append((exe, wd, res.seed, c, fmt, counts, ffs))
                c += 1
    for o in pmap(view_case, jobs):
        res.evaluations += 1
        res.count("view_rows_compared", o["events"])
        if o["viol"]:
            res.violation(*o["viol"])
        res.nontrivial |= o["keys"]
    n = 150 if quick else 15000
    for o in pmap(check_case, [(exe, wd, res.seed, k) for k in range(n)]):
        res.evaluations += 1
        res.count("check_messages_examined", o["events"])
        if o["viol"]:
            res.violation(*o["viol"])
        res.nontrivial |= o["keys"]
    d8_witness(res, exe, wd)
    res.rule = ("formats {0, 2, mixed per packet} x word counts (0..40 + samples quick, 0..700 thorough) x trailing 0xFF runs 0..40 (in-process) / 0..15 (views) / 16..40 (over-padding in checks); "
                "non-trivial = distinct (format, word count class, 0xFF run) cell compared")
    res.samples = ["format 2, 5 words + 9 x 0xFF", "format 2, 5 words + 10 x 0xFF", "format 2, 7 words + 16 x 0xFF -> one Payload error", "format 0, 33 words",
                   "TDT(packet_done=0) | over-padded payload | IHW TDH(cont=0): no [E41]"]
    res.min_nontrivial = 300 if quick else 900
    res.assumptions = ["the payload layout agrees with the header's data format; a format 2 payload whose second word starts with six 0x00 bytes is finding D8 (sniff-vs-header-format)"]
