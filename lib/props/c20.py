"""C20 - user-configured checks are enforced exactly.

Observed: [E9001] [E9002] [E9004] [E9005] [E45] [E10 Header ID] messages and their offsets, exit status. Oracle: generator ground truth."""
import os, re, json
import build, obs, gen, its, rdh as R
from common import pmap, scratch, rng_for, save_replay, write_file

LEVEL = "exploration"


def toml_of(cfg, commented=()):
    lines = ["# custom checks written by the C20 monitor"]
    for k, v in cfg.items():
        lines.append(("#" if k in commented else "") + "%s = %s" % (k, json.dumps(v)))
    return "\n".join(lines) + "\n"


def norm_out(r):
    out = obs.strip_ansi(r.stdout.decode("utf-8", "replace"))
    out = "\n".join(l for l in out.split("\n") if "Processed in" not in l)
    return out


def expected_e45(s, P, links):
    """offsets of the TDHs where the distance to the previous internal-trigger TDH (mod 3564) differs from P"""
    exp = set()
    for l in links:
        prev = None
        for p in s.pkts[l]:
            for k, (kind, w) in enumerate(p.words):
                if kind != "TDH":
                    continue
                t = its.tdh_fields(w)
                if not t["cont"] and t["internal"] and prev is not None:
                    d = t["bc"] - prev if t["bc"] >= prev else 3564 - prev + t["bc"]
                    if d != P:
                        exp.add(p.word_offsets[k])
                if t["internal"]:
                    prev = t["bc"]
    return exp


def lanes_with(msg, code):
    res = set()
    for seg in msg.text.split("\n\tLane ")[1:]:
        m = re.match(r"(\d+) errors", seg)
        if m and ("[E%s]" % code) in seg:
            res.add(int(m.group(1)))
    return res


def one_case(args):
    exe, wd, seed, case, tier = args
    rng = rng_for(seed, case)
    out = dict(case=case, viol=None, events=0, key=None, sample=None)
    kind = rng.choice(["counts", "counts", "version", "chips", "chips", "default_file", "period", "period", "subsets"])
    files = {}

    def go(path, extra, cfg=None, commented=(), stats="json", tagx=""):
        argv = [path] + extra
        if cfg is not None:
            tp = os.path.join(wd, "c%d%s.toml" % (case, tagx))
            write_file(tp, toml_of(cfg, commented))
            files["checks%s.toml" % tagx] = toml_of(cfg, commented)
            argv += ["-c", tp]
        r = obs.run(exe, argv, workdir=wd, stats=stats, tag="c%d" % case)
        r.argv = argv
        return r

    def bad(what, r=None):
        if r is not None:
            files["stderr.txt"] = r.stderr
            files["stats.json"] = r.stats_raw or b""
        d = save_replay("C20", "case%d" % case, files, dict(seed=seed, case=case, kind=kind, what=what, argv=getattr(r, "argv", None)))
        out["viol"] = ("custom:%s:%s" % (kind, what.split(":")[0]), "%s: %s" % (out["sample"], what), d)
        return out

    N = rng.choice([1, 9, 77, 255])
    if kind in ("counts", "subsets", "default_file", "version"):
        s = gen.generate(rng.getrandbits(40), mode=rng.choice(["internal", "pht", "pht"]))
        if kind == "version" and rng.random() < 0.6:
            # some packets of another version (never the first of a link: that one defines nothing when a version is configured)
            for lp in s.pkts:
                for p in lp[1:]:
                    if rng.random() < 0.2:
                        p.f["header_id"] = 6 if s.version == 7 else 7
        data = s.serialize()
        path = os.path.join(wd, "c%d.raw" % case)
        write_file(path, data)
        files["input.raw"] = data
        t = s.truth()
        mode = rng.choice(list(obs.MODES))
        margs = obs.MODES[mode]
        flt = None
        if rng.random() < 0.3 and kind == "counts":
            lk = rng.choice(s.links)
            flt = ("link", lk.link_id)
        fargs = R.filter_args(*flt) if flt else []
        analysed = [p for p in s.all_packets() if flt is None or s.links[p.link].link_id == flt[1]]
        pht_true = sum(1 for p in analysed if p.f["trigger_type"] & 0x10)
        out["sample"] = "%s: %d packets (%d PhT analysed), check %s, filter %s" % (kind, t["rdhs"], pht_true, mode, flt)
        try:
            if kind == "counts":
                for dc in (-1, 0, 1):
                    for dp in (-1, 0, 1):
                        if rng.random() < 0.5 and (dc, dp) != (0, 0):
                            continue
                        cfg = dict(cdps=max(0, t["rdhs"] + dc), triggers_pht=max(0, pht_true + dp))
                        # each key also alone in the file (the other one commented out): a check that is not configured reports nothing,
                        # a configured one is enforced whatever else the file holds
                        off_keys = rng.choice([(), (), ("cdps",), ("triggers_pht",)])
                        r = go(path, margs + fargs + ["-E", str(N)], cfg, commented=off_keys)
                        if r.abnormal(allowed_rc=(0, N)) or r.stats is None:
                            return bad("abnormal end: %s" % r.abnormal(allowed_rc=(0, N)), r)
                        ce = r.stats["error_stats"]["custom_checks_stats_errors"]
                        has1 = any("[E9001]" in m for m in ce)
                        has2 = any("[E9002]" in m for m in ce)
                        out["events"] += 2
                        if has1 != (cfg["cdps"] != t["rdhs"] and "cdps" not in off_keys):
                            return bad("E9001: configured cdps=%s, the input has %d RDHs, [E9001] %s" % ("-" if "cdps" in off_keys else cfg["cdps"], t["rdhs"], "reported" if has1 else "missing"), r)
                        if has2 != (cfg["triggers_pht"] != pht_true and "triggers_pht" not in off_keys):
                            return bad("E9002: configured triggers_pht=%s, %d PhT packets analysed, [E9002] %s" % ("-" if "triggers_pht" in off_keys else cfg["triggers_pht"], pht_true, "reported" if has2 else "missing"), r)
                        want_rc = N if (has1 or has2) else 0
                        if r.rc != want_rc:
                            return bad("exit: status %s, expected %d" % (r.rc, want_rc), r)
                        shown = [m for m in r.displayed_errors()]
                        if (has1 or has2) and not any("[E900" in l for l in r.stderr.split("\n")):
                            return bad("display: custom check error not displayed", r)
            elif kind == "version":
                v = rng.choice([6, 7, 7, 5])
                r = go(path, margs + ["-E", str(N)], dict(rdh_version=v))
                if r.abnormal(allowed_rc=(0, N)) or r.stats is None:
                    return bad("abnormal end: %s" % r.abnormal(allowed_rc=(0, N)), r)
                want = set(p.offset for p in s.all_packets() if p.f["header_id"] != v)
                got = set(m.offset for m in r.reported() if m.code == "10" and "Header ID" in m.text)
                out["events"] += len(s.all_packets())
                if got != want:
                    return bad("version: rdh_version=%d: [E10] Header ID at %d RDHs, %d RDHs have another version (first differing offset %s)" % (
                        v, len(got), len(want), sorted(got ^ want)[:1]), r)
                others = [m for m in r.reported() if not (m.code == "10" and m.offset in want)]
                if others and kind == "version":
                    pass
            elif kind == "subsets":
                truth_cfg = dict(cdps=t["rdhs"], triggers_pht=sum(1 for p in s.all_packets() if p.f["trigger_type"] & 0x10), rdh_version=s.version,
                                 chip_count_ob=7, chip_orders_ob=[[0, 1, 2, 3, 4, 5, 6], [8, 9, 10, 11, 12, 13, 14]])
                if "ob_chips:any" in s.features:
                    truth_cfg.pop("chip_count_ob")
                    truth_cfg.pop("chip_orders_ob")
                keys = list(truth_cfg)
                for _ in range(4):
                    sub = [k for k in keys if rng.random() < 0.5]
                    cfg = {k: truth_cfg[k] for k in keys}
                    r = go(path, margs + ["-E", str(N)], cfg, commented=[k for k in keys if k not in sub])
                    out["events"] += 1
                    if r.abnormal(allowed_rc=(0,)) or r.total_errors() != 0:
                        return bad("subset: keys %s set to the true values, yet errors / exit %s: %s" % (sub, r.rc, (r.reported() or r.stats and r.stats["error_stats"]["custom_checks_stats_errors"] or [""])[:1]), r)
            else:  # default_file: absent file == file with every key commented
                cfg = dict(cdps=1, triggers_pht=1, rdh_version=3, chip_count_ob=1, chip_orders_ob=[[1]])
                a = go(path, margs, None)
                b = go(path, margs, cfg, commented=list(cfg), tagx="b")
                out["events"] += 3
                if a.abnormal() or b.abnormal():
                    return bad("abnormal end: %s / %s" % (a.abnormal(), b.abnormal()), b)
                if a.stats_raw != b.stats_raw or norm_out(a) != norm_out(b) or a.rc != b.rc or [m.text for m in a.displayed_errors()] != [m.text for m in b.displayed_errors()]:
                    return bad("default file: output with an all-default checks file differs from the output without a file", b)
        finally:
            os.unlink(path)
        out["key"] = (kind, mode, flt is not None)
        return out

    if kind == "chips":
        s = gen.generate(rng.getrandbits(40), barrels=[rng.choice(["ML", "OL"])], ob_chips=rng.choice(["any", "0-6/8-14"]), p_nodata=0.0,
                         n_links=rng.choice([1, 2]), hbfs=rng.choice([1, 2]), hits=rng.choice(["none", "few"]))
        data = s.serialize()
        path = os.path.join(wd, "c%d.raw" % case)
        write_file(path, data)
        files["input.raw"] = data
        cfg = {}
        if rng.random() < 0.7:
            cfg["chip_count_ob"] = rng.choice([7, 7, 6, 3, 1, 8])
        if rng.random() < 0.7:
            cfg["chip_orders_ob"] = rng.choice([[[0, 1, 2, 3, 4, 5, 6], [8, 9, 10, 11, 12, 13, 14]], [[0, 1, 2, 3, 4, 5, 6]], [[1, 2, 3]], [[8, 9, 10, 11, 12, 13, 14]]])
        if not cfg:
            cfg["chip_count_ob"] = 7
        out["sample"] = "chips: %d frames, %s, config %s" % (len(s.frames), sorted(s.features & {"barrel:ML", "barrel:OL", "ob_chips:any"}), cfg)
        try:
            r = go(path, ["check", "all", "its-stave", "-E", str(N)], cfg)
            if r.abnormal(allowed_rc=(0, N)) or r.stats is None:
                return bad("abnormal end: %s" % r.abnormal(allowed_rc=(0, N)), r)
            by_off = {}
            for m in r.reported():
                if m.code == "75":
                    by_off.setdefault(m.offset, []).append(m)
            for fr in s.frames:
                tp, tk = fr["tdh"]
                off = s.pkts[fr["link"]][tp].word_offsets[tk]
                want4, want5 = set(), set()
                for ident, chips in fr["chips"].items():
                    lane = its.lane_number(ident)
                    count_bad = "chip_count_ob" in cfg and len(chips) != cfg["chip_count_ob"]
                    if count_bad:
                        want4.add(lane)
                    elif "chip_orders_ob" in cfg and chips not in cfg["chip_orders_ob"]:
                        want5.add(lane)
                msgs = by_off.get(off, [])
                got4 = set().union(*[lanes_with(m, "9004") for m in msgs]) if msgs else set()
                got5 = set().union(*[lanes_with(m, "9005") for m in msgs]) if msgs else set()
                out["events"] += len(fr["chips"])
                if got4 != want4:
                    return bad("E9004: frame at 0x%X: chip count error on lanes %s, expected on %s (config %s)" % (off, sorted(got4), sorted(want4), cfg), r)
                if got5 != want5:
                    return bad("E9005: frame at 0x%X: chip order error on lanes %s, expected on %s (config %s)" % (off, sorted(got5), sorted(want5), cfg), r)
            any_err = any(lanes_with(m, "9004") or lanes_with(m, "9005") for ms in by_off.values() for m in ms)
            if any_err and r.rc != N:
                return bad("exit: status %s with custom chip errors, expected %d" % (r.rc, N), r)
        finally:
            os.unlink(path)
        out["key"] = (kind, tuple(sorted(cfg)), "ob_chips:any" in s.features)
        return out

    # trigger period
    P = rng.choice([1, 198, 198, 3563, 3564, 594, 7])
    genP = P if P <= 3563 and rng.random() < 0.7 else rng.choice([198, 7, 1000])
    s = gen.generate(rng.getrandbits(40), mode="internal", period=genP, n_links=rng.choice([1, 2]), hbfs=rng.choice([2, 3, 5]), p_nodata=rng.choice([0.0, 0.3]),
                     hits=rng.choice(["none", "few"]), p_split=rng.choice([0.0, 0.4]), max_pages=rng.choice([1, 3]))
    # deviations
    for _ in range(rng.choice([0, 0, 1, 3])):
        lp = rng.choice(s.pkts)
        p = rng.choice(lp)
        ks = [k for k, (kd, w) in enumerate(p.words) if kd == "TDH"]
        if ks:
            k = rng.choice(ks)
            f = its.tdh_fields(p.words[k][1])
            p.words[k][1] = its.tdh(f["trigger_type"], f["internal"], f["no_data"], f["cont"], (f["bc"] + rng.choice([1, 2, 3563])) % 3564, f["orbit"])
    data = s.serialize()
    path = os.path.join(wd, "c%d.raw" % case)
    write_file(path, data)
    files["input.raw"] = data
    lk = rng.choice(s.links)
    sel = [l for l in range(len(s.links)) if (s.links[l].fee & 0x703F) == (lk.fee & 0x703F)]
    out["sample"] = "period: configured %d, generated with %d, %d TDHs on the stave" % (P, genP, sum(1 for l in sel for p in s.pkts[l] for kd, _ in p.words if kd == "TDH"))
    try:
        r = go(path, ["check", "all", "its-stave", "-p", str(P)] + R.filter_args("stave", lk.fee))
        if r.abnormal() or r.stats is None:
            return bad("abnormal end: %s" % r.abnormal(), r)
        want = expected_e45(s, P, sel)
        got = set(m.offset for m in r.reported() if m.code == "45")
        out["events"] += sum(1 for l in sel for p in s.pkts[l] for kd, _ in p.words if kd == "TDH")
        if got != want:
            return bad("E45: period %d: [E45] at %d TDHs, expected at %d (first differing offset %s)" % (P, len(got), len(want), [hex(x) for x in sorted(got ^ want)[:2]]), r)
    finally:
        os.unlink(path)
    out["key"] = (kind, P, genP, bool(want))
    return out


def run(res):
    exe = build.fastpasta("rel")
    wd = scratch("c20")
    n = 150 if res.tier == "quick" else 12000
    for o in pmap(one_case, [(exe, wd, res.seed, c, res.tier) for c in range(n)]):
        res.evaluations += 1
        res.count("facts_compared", o["events"])
        if o["viol"]:
            res.violation(*o["viol"])
        if o["key"] and o["events"]:
            res.nontrivial.add(o["key"])
        if o["sample"]:
            res.sample(o["sample"], cap=8)
    res.rule = ("conforming streams with known packet / PhT counts, versions, chip lists and internal-trigger bc sequences (wrap-around over orbits) x configured values "
                "{truth-1, truth, truth+1}, key subsets, all-commented file vs no file, periods {1,7,198,594,3563,3564}; non-trivial = distinct (sub-check, configuration class)")
    res.min_nontrivial = 25 if res.tier == "quick" else 45
    res.assumptions = ["frames are not preceded by no-data TDHs in the chip-list sub-check (frame start offset = its own TDH)"]
