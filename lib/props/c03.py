"""C03 - scanning follows the RDH chain exactly in every input mode.

Observed: rows of `view rdh -d` / `view its-readout-frames-data -d`, rdh_stats of `check all`, bytes written by the
filter writer, and the (rdh, payload, offset) triples returned by the real InputScanner in-process.
Oracle: independent walk of the chain (lib/rdh.py, Rust twin in the harness)."""
import os, random
import build, obs, frame, rdh as R, inproc
from common import pmap, scratch, rng_for, save_replay, write_file

LEVEL = "exploration"
COUNTS = [1, 2, 99, 100, 101, 199, 200, 201]


def expected(pkts, flt):
    return [p for p in pkts if flt is None or R.matches(p.f, flt[0], flt[1])]


def pick_filter(rng, pkts):
    r = rng.random()
    if r < 0.3 or not pkts:
        return None
    p = rng.choice(pkts)
    kind = rng.choice(["link", "fee", "stave"])
    val = {"link": p.f["link_id"], "fee": p.f["fee_id"], "stave": p.f["fee_id"] & 0x703F}[kind]
    if rng.random() < 0.12:   # a value that is not present
        if kind == "link":
            val = next((v for v in range(256) if all(q.f["link_id"] != v for q in pkts)), val)      # (all 256 link ids may be present)
        elif kind == "fee":
            val = next((v for v in range(65536) if all(q.f["fee_id"] != v for q in pkts)), val)
        else:
            val = next((v for v in (R.fee_id(l, s) for l in range(8) for s in range(64)) if all((q.f["fee_id"] & 0x703F) != v for q in pkts)), val)
    return (kind, val)


def one_case(args):
    exe, wd, seed, case, tier = args
    rng = rng_for(seed, case)
    out = dict(case=case, viol=None, events=0, key=None, sample=None)
    mode = rng.choice(["view_rdh", "view_rdh", "check_all", "view_data", "writer"])
    big = tier == "thorough" and rng.random() < 0.02
    if big:
        mode = rng.choice(["view_rdh", "writer", "check_all"])
    npk = rng.choice(COUNTS + [rng.randrange(0, 400), rng.randrange(0, 60), 1000]) if not big else rng.choice([10_000, 30_000, 100_000])
    payload = "its" if mode == "view_data" else ("none" if (big or rng.random() < 0.2) else "random")
    maxp = None if npk <= 400 else rng.choice([0, 32, 300])
    pkts = frame.generate(rng, npk, payload=payload, max_payload=maxp, its_only=(mode == "view_data"))
    if npk >= 30 and rng.random() < 0.12:
        # extreme: more distinct link ids than one CRU serves (up to all 256 values)
        K = rng.choice([25, 40, 256])
        for i, p in enumerate(pkts):
            p.f["link_id"] = (i * 7) % K
    data = frame.serialize(pkts)
    flt = pick_filter(rng, pkts)
    if mode == "writer" and flt is None:
        flt = ("link", pkts[0].f["link_id"]) if pkts else ("link", 0)
    use_stdin = rng.random() < 0.5
    path = os.path.join(wd, "c%d.raw" % case)
    write_file(path, data)
    fargs = R.filter_args(*flt) if flt else []
    margs = {"view_rdh": ["view", "rdh", "-d"], "check_all": ["check", "all"] + (["-m"] if big else []), "view_data": ["view", "its-readout-frames-data", "-d"], "writer": []}[mode]
    argv = ([] if use_stdin else [path]) + margs + fargs
    r = obs.run(exe, argv, stdin_path=path if use_stdin else None, workdir=wd, stats="json" if mode == "check_all" else None,
                out_name=(mode == "writer"), tag="c%d" % case, timeout=900 if big else 180, prefill_out=(b"\x5a" * 70000 if case % 3 == 0 and not big else None),
                stdin_chunk=(rng.choice([None, None, 7, 64, 999, 8191, 8193]) if use_stdin and not big else None))
    os.unlink(path)
    exp = expected(pkts, flt)
    desc = "%d packets, %s, %s, filter %s, payload %s" % (npk, mode, "stdin" if use_stdin else "file", flt, payload)
    out["key"] = (mode, use_stdin, flt[0] if flt else None, min(npk, 202), payload)
    out["sample"] = desc

    def bad(what):
        d = save_replay("C03", "case%d" % case, {"input.raw": data, "stdout.txt": r.stdout, "stderr.txt": r.stderr},
                        dict(seed=seed, case=case, argv=argv, stdin=use_stdin, what=what, desc=desc))
        out["viol"] = ("scan:%s:%s" % (mode, what.split(":")[0]), "%s: %s" % (desc, what), d)
        return out

    ab = r.abnormal()
    if ab:
        return bad("abnormal end: %s" % ab)
    if npk == 0:
        # nothing to visit: the tool has to end normally without showing or writing any packet
        # (an -o file that existed before is either emptied or, because the run is refused before the output is opened, left as it was)
        prefilled = b"\x5a" * 70000 if case % 3 == 0 and not big else b""
        if obs.parse_rdh_view(r.stdout) or (r.out_file or b"") not in (b"", prefilled):
            return bad("empty input: rows or output produced from an empty input")
        return out
    if mode == "view_rdh":
        rows = obs.parse_rdh_view(r.stdout)
        out["events"] = len(rows)
        if len(rows) != len(exp):
            return bad("row count: %d rows shown, %d packets match" % (len(rows), len(exp)))
        for i, ((off, fields), p) in enumerate(zip(rows, exp)):
            if off != p.offset:
                return bad("offset: row %d shows offset 0x%X, the packet is at 0x%X" % (i, off, p.offset))
            if "".join(fields) != "".join(R.row_fields(p.f)):   # independent of column widths
                return bad("fields: row %d at 0x%X shows %s, independent decoding gives %s" % (i, off, fields, R.row_fields(p.f)))
    elif mode == "check_all":
        if r.stats is None:
            return bad("stats: no statistics file")
        st = r.stats["rdh_stats"]
        out["events"] = len(r.reported() or []) + 3
        want_seen, want_f = len(pkts), (len(exp) if flt else 0)
        want_payload = sum(len(p.payload) for p in exp)
        if st["rdhs_seen"] != want_seen:
            return bad("visited: rdhs_seen=%d, the chain has %d" % (st["rdhs_seen"], want_seen))
        if st["rdhs_filtered"] != want_f:
            return bad("matching: rdhs_filtered=%d, %d match" % (st["rdhs_filtered"], want_f))
        if st["payload_size"] != want_payload:
            return bad("payload: payload_size=%d, packets returned carry %d" % (st["payload_size"], want_payload))
        offs = {p.offset: p for p in exp}
        for m in r.reported():
            if m.offset not in offs:
                return bad("error offset: message at %s is not the offset of a (matching) packet: %s" % (m.offset, m.text[:100]))
    elif mode == "view_data":
        rows = obs.parse_frames_view(r.stdout)
        out["events"] = len(rows)
        want = []
        for p in exp:
            want.append((p.offset, "RDH", None))
            slot = 16 if p.f["data_format"] == 0 else 10
            for k, w in enumerate(p.words or []):
                want.append((p.offset + 64 + k * slot, None, w))
        got = [(o, k if k == "RDH" else None, b) for o, k, b, _ in rows]
        if len(got) != len(want):
            return bad("row count: %d rows, expected %d (RDHs + words)" % (len(got), len(want)))
        for i, (g, w) in enumerate(zip(got, want)):
            if g != w:
                return bad("row: row %d is %s, expected %s" % (i, g, w))
    else:
        want = b"".join(R.pack(p.f) + p.payload for p in exp)
        out["events"] = len(exp)
        if r.out_file is None:
            return bad("output: no output file written")
        if r.out_file != want:
            return bad("output: %d bytes written, expected %d bytes (concatenation of the %d matching packets)" % (len(r.out_file), len(want), len(exp)))
    return out


def backpressure_case(args):
    """scale: 30 000 packets (more than the reader's queue of 100 batches x 100 packets holds) while the consumer of the batches is stalled for
    several hundred ms at a time (H1 stall of the analysis thread / the writer): every RDH is still visited exactly once, in order"""
    exe, wd, seed, case, tier = args
    rng = rng_for(seed, 900000 + case)
    out = dict(case=case, viol=None, events=0, key=None, sample=None)
    n = 30000
    pkts = frame.generate(rng, n, payload="none", sane_headers=True)
    sysid = pkts[0].f["system_id"]
    for p in pkts:
        p.f["system_id"] = sysid
    data = frame.serialize(pkts)
    mode = ["view_rdh", "writer", "check_all"][case % 3]
    path = os.path.join(wd, "bp%d.raw" % case)
    write_file(path, data)
    use_stdin = case % 2 == 1
    lk = pkts[0].f["link_id"]
    for p in pkts:
        p.f["link_id"] = lk if mode == "writer" else p.f["link_id"]
    if mode == "writer":
        data = frame.serialize(pkts)
        write_file(path, data)
    argv = ([] if use_stdin else [path]) + {"view_rdh": ["view", "rdh"], "writer": ["-f", str(lk)], "check_all": ["check", "all", "-m"]}[mode]
    site = {"view_rdh": 2, "writer": 8, "check_all": rng.choice([2, 9])}[mode]
    sched = "%d:0:%d:%d:%d" % (seed * 77 + case, site, rng.choice([300, 450]), rng.choice([3, 5]))
    r = obs.run(exe, argv, stdin_path=path if use_stdin else None, workdir=wd, stats="json", out_name=(mode == "writer"), tag="bp%d" % case,
                env={"FASTPASTA_VERIF_SCHED": sched}, timeout=300, out_limit=1 << 30)
    ref_errors = None
    if mode == "check_all":
        r0 = obs.run(exe, argv, stdin_path=path if use_stdin else None, workdir=wd, stats="json", tag="bq%d" % case, timeout=300)
        ref_errors = r0.total_errors() if r0.stats else None
    os.unlink(path)
    desc = "backpressure: %d packets, %s, %s, consumer stalled by schedule %s" % (n, mode, "stdin" if use_stdin else "file", sched)
    out["sample"] = desc
    out["key"] = ("backpressure", mode, use_stdin)

    def bad(what):
        d = save_replay("C03", "bp%d" % case, {"stderr.txt": r.stderr[-20000:]}, dict(seed=seed, case=case, argv=argv, sched=sched, what=what, desc=desc,
                        note="input regenerated from (seed, case): lib/props/c03.py backpressure_case"))
        out["viol"] = ("scan:backpressure:%s" % what.split(":")[0], "%s: %s" % (desc, what), d)
        return out
    if r.abnormal():
        return bad("abnormal end: %s" % r.abnormal())
    if mode == "view_rdh":
        rows = obs.parse_rdh_view(r.stdout)
        out["events"] = len(rows)
        if len(rows) != n:
            return bad("row count: %d rows shown, the chain has %d packets" % (len(rows), n))
        for i, ((off, fields), p) in enumerate(zip(rows, pkts)):
            if off != p.offset:
                return bad("offset: row %d shows offset 0x%X, the packet is at 0x%X" % (i, off, p.offset))
    elif mode == "writer":
        out["events"] = n
        if (r.out_file or b"") != data:
            return bad("output: %d bytes written, expected %d (every packet matches the filter)" % (len(r.out_file or b""), len(data)))
    else:
        out["events"] = n
        if r.stats is None or r.stats["rdh_stats"]["rdhs_seen"] != n:
            return bad("visited: rdhs_seen=%s, the chain has %d" % (r.stats and r.stats["rdh_stats"]["rdhs_seen"], n))
        offs = set(p.offset for p in pkts)
        errs = r.reported()
        per_pkt = {}
        for m in errs:
            if m.offset not in offs:
                return bad("error offset: message at %s is not the offset of a packet" % m.offset)
            per_pkt[m.offset] = per_pkt.get(m.offset, 0) + 1
        # a packet that was never handed to a validator has no messages: the unstalled run of the same command is the reference
        if ref_errors is not None and r.total_errors() != ref_errors:
            return bad("validated: %d errors collected under the stalled schedule, %d without it" % (r.total_errors(), ref_errors))
    return out


def run(res):
    exe = build.fastpasta("rel")
    wd = scratch("c03")
    quick = res.tier == "quick"
    n = 320 if quick else 6000
    outs = pmap(one_case, [(exe, wd, res.seed, c, res.tier) for c in range(n)])
    outs += pmap(backpressure_case, [(exe, wd, res.seed, c, res.tier) for c in range(3 if quick else 24)], workers=3)
    for o in outs:
        res.evaluations += 1
        res.count("rows_or_events_compared", o["events"])
        if o["viol"]:
            res.violation(*o["viol"])
        if o["events"] > 0:
            res.nontrivial.add(o["key"])
        res.sample(o["sample"])
    # in-process scanner
    shards = 2 if quick else 16
    cases = 150 if quick else 1200
    js = pmap(lambda i: inproc.check(res, "scan", ["--seed", res.seed * 100 + i, "--cases", cases, "--max-packets", 1000 if quick else 10000,
                                                    "--tmp", os.path.join(wd, "scan%d.raw" % i)], "scan-inproc", "InputScanner in-process"), range(shards))
    for j in js:
        if j:
            res.evaluations += j["scans"]
            res.count("inproc_packets_compared", j["packets_returned_and_compared"])
            res.count("inproc_scans", j["scans"])
            res.extra["inproc_distinct_configurations"] = j["distinct_configurations"]
    res.rule = ("G-frame streams (arbitrary header values, payload 0..10000 bytes, counts incl. 99/100/101/199/200/201/1000) x "
                "{view rdh, check all, data view, filter writer} x {file, stdin} x {no filter, link, FEE, stave, absent value}; "
                "plus backpressure cases (30 000 packets, the consumer of the reader's batches stalled 300-450 ms several times by an H1 schedule); "
                "non-trivial = distinct (mode, input kind, filter kind, packet count class, payload kind) with >= 1 compared row")
    res.min_nontrivial = 40 if quick else 150
    res.assumptions = ["well-framed input: offset_to_next == memory_size in 64..10064", "first RDH passes the start-up gate (recognised input)",
                       "every RDH carries a system id the tool knows (an unknown system id on the first analysed packet is a fatal input error by design)"]
