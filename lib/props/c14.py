"""C14 - statistics equal ground truth computed from the input.

Observed: statistics file (JSON / TOML) and report rows. Oracle: counters from the independent chain walk /
generator ground truth."""
import os
import build, obs, frame, gen, alpide, rdh as R
from common import pmap, scratch, rng_for, save_replay, write_file

LEVEL = "exploration"
SYSNAME = {3: "TPC", 4: "TRD", 5: "TOF", 6: "HMP", 7: "PHS", 8: "CPV", 10: "MCH", 15: "ZDC", 17: "TRG", 18: "EMC", 19: "TST", 32: "ITS",
           33: "FDD", 34: "FT0", 35: "FV0", 36: "MFT", 37: "MID", 38: "DCS", 39: "FOC", 255: "Unloaded"}
TRG_BITS = ["orbit", "hb", "hbr", "hc", "pht", "pp", "cal", "sot", "eot", "soc", "eoc", "tf", "fe_rst", "rt", "rs"]
TRG_HIGH = {"lhc_gap1": 27, "lhc_gap2": 28, "tpc_sync": 29, "tpc_rst": 30, "tof": 31}


def trig_name(t):
    return "SOC  " if t & 0x200 else ("SOT  " if t & 0x80 else ("HB   " if t & 2 else ("PhT  " if t & 0x10 else "Other")))


def truth(pkts, flt, analysed_mode):
    """pkts: list of (fields, payload_len) in input order."""
    exp = [p for p in pkts if flt is None or R.matches(p[0], flt[0], flt[1])]
    t = dict(rdhs_seen=len(pkts), rdhs_filtered=len(exp) if flt else 0, payload_size=sum(p[1] for p in exp),
             links=sorted(set(p[0]["link_id"] for p in pkts)), rdh_version=pkts[0][0]["header_id"], data_format=pkts[0][0]["data_format"],
             system_id=SYSNAME[pkts[0][0]["system_id"]], run_trigger_type=[pkts[0][0]["trigger_type"], trig_name(pkts[0][0]["trigger_type"])])
    fees = []
    for p in pkts:
        if p[0]["fee_id"] not in fees:
            fees.append(p[0]["fee_id"])
    t["fee_id"] = fees
    if analysed_mode:
        t["hbfs_seen"] = sum(1 for p in exp if p[0]["stop_bit"] == 1)
        ls = []
        if exp and exp[0][0]["system_id"] == 32:
            for p in exp:
                k = [(p[0]["fee_id"] >> 12) & 7, p[0]["fee_id"] & 0x3F]
                if k not in ls:
                    ls.append(k)
        t["layer_staves_seen"] = ls
        ts = {}
        for i, n in enumerate(TRG_BITS):
            ts[n] = sum(1 for p in exp if p[0]["trigger_type"] >> i & 1)
        for n, b in TRG_HIGH.items():
            ts[n] = sum(1 for p in exp if p[0]["trigger_type"] >> b & 1)
        t["trigger_stats"] = ts
    else:
        t["hbfs_seen"] = 0
        t["layer_staves_seen"] = []
        t["trigger_stats"] = {n: 0 for n in TRG_BITS + list(TRG_HIGH)}
    return t, exp


MODES = [["check", "sanity"], ["check", "all"], ["check", "sanity", "its"], ["check", "all", "its"], ["check", "all", "its-stave"],
         ["view", "rdh"], ["view", "its-readout-frames"], ["view", "its-readout-frames-data"], []]


def one_case(args):
    exe, wd, seed, case, tier = args
    rng = rng_for(seed, case)
    out = dict(case=case, viol=None, events=0, key=None, sample=None)
    conf = rng.random() < 0.45
    mode = rng.choice(MODES)
    frames_truth = None
    scale = case % 4000 == 0
    if scale:
        # one large case per run: every counter of the statement beyond 65 536 (packets, HBFs, trigger bits), payload bytes beyond 2^16, > 1000 reader batches
        conf = False
        mode = [["check", "sanity"], ["check", "all"], ["view", "rdh"], ["check", "all", "its"]][(seed + case // 4000) % 4]
        fp = frame.generate(rng, 140000, payload="none", sane_headers=True)
        for i, p in enumerate(fp):
            p.f["system_id"] = 32
            p.f["stop_bit"] = i & 1
            if i % 10:
                p.f["trigger_type"] |= 0x3
        for p in fp[::7]:
            p.payload = bytes(16)
        for p in fp[1000:140000:63]:
            p.payload = bytes(8000)         # 2207 large payloads: more than 2^24 payload bytes in total
        data = frame.serialize(fp)
        pkts = [(p.f, len(p.payload)) for p in fp]
    elif case % 4000 == 1:
        # scale (stave level): an outer-barrel link with > 1200 readout frames, more than 65 536 chip trailers in one run
        conf = True
        mode = ["check", "all", "its-stave"]
        s = gen.generate(rng.getrandbits(40), barrels=["OL"], n_links=1, hbfs=520, max_triggers=4, max_pages=3, hits="few", p_nodata=0.0)
        data = s.serialize()
        pk = s.all_packets()
        pkts = [(p.full, len(p.payload(s.fmt))) for p in pk]
        flags = [fl for fr in s.frames for fl in fr["flags"]]
        frames_truth = (s, flags)
        scale = True
    elif conf:
        s = gen.generate(rng.getrandbits(40), target_packets=rng.choice([None, None, 100, 200, 101]) if rng.random() < 0.3 else None)
        data = s.serialize()
        pk = s.all_packets()
        pkts = [(p.full, len(p.payload(s.fmt))) for p in pk]
        flags = [fl for fr in s.frames for fl in fr["flags"]]
        frames_truth = (s, flags)
    else:
        npk = rng.choice([1, 2, 99, 100, 101, 200, 201, rng.randrange(1, 300), rng.randrange(150, 400)])
        its_payload = mode[:1] == ["view"] and mode[1] != "rdh" or (len(mode) == 3)
        fp = frame.generate(rng, npk, payload="its" if its_payload else rng.choice(["random", "none"]),
                            max_payload=rng.choice([64, 600, 2000]), its_only=rng.random() < 0.7)
        one_sys = fp[0].f["system_id"]
        for p in fp:
            p.f["system_id"] = one_sys
        # extreme identifiers: the first packet's link mapped to 255 / 0 (for all its packets), more than 24 / all 256 distinct link ids, hundreds of FEE ids
        ex = rng.random()
        if ex < 0.15:
            l0, v = fp[0].f["link_id"], rng.choice([255, 255, 0])
            for p in fp:
                if p.f["link_id"] == l0:
                    p.f["link_id"] = v
                elif p.f["link_id"] == v:
                    p.f["link_id"] = l0
        elif ex < 0.25 and npk >= 30:
            K = rng.choice([25, 40, 256])
            for i, p in enumerate(fp):
                p.f["link_id"] = (i * 7) % K
        data = frame.serialize(fp)
        pkts = [(p.f, len(p.payload)) for p in fp]
    flt = None
    if (mode == [] or rng.random() < 0.4) and not (scale and conf):
        f0 = rng.choice(pkts)[0]
        kind = rng.choice(["link", "fee", "stave"])
        flt = (kind, {"link": f0["link_id"], "fee": f0["fee_id"], "stave": f0["fee_id"] & 0x703F}[kind])
    analysed = mode != []
    fmt = rng.choice(["json", "toml"])
    use_stdin = rng.random() < 0.3
    path = os.path.join(wd, "c%d.raw" % case)
    write_file(path, data)
    argv = ([] if use_stdin else [path]) + mode + (R.filter_args(*flt) if flt else []) + (["-m"] if rng.random() < 0.2 or scale else [])
    to_file = mode == [] and rng.random() < 0.5
    r = obs.run(exe, argv, stdin_path=path if use_stdin else None, workdir=wd, stats=fmt, out_name=to_file, tag="c%d" % case, out_limit=(1 << 30) if scale else None)
    os.unlink(path)
    desc = "%s stream, %d packets, mode %s, filter %s, %s, stats %s" % ("G-conf" if conf else "G-frame (scale case)" if scale else "G-frame", len(pkts), " ".join(mode) or "writer", flt,
                                                                          "pipe" if use_stdin else "file", fmt)
    out["key"] = (" ".join(mode), flt[0] if flt else None, fmt, conf, min(len(pkts), 202) // 50)
    out["sample"] = desc

    def bad(what):
        d = save_replay("C14", "case%d" % case, {"input.raw": data, "stats.txt": r.stats_raw or b"", "stdout.txt": r.stdout, "stderr.txt": r.stderr},
                        dict(seed=seed, case=case, argv=argv, stdin=use_stdin, what=what, desc=desc))
        out["viol"] = ("stats:%s" % what.split(":")[0], "%s: %s" % (desc, what), d)
        return out
    ab = r.abnormal()
    if ab:
        return bad("abnormal end: %s" % ab)
    if r.stats is None:
        return bad("no statistics: statistics file missing or unparsable")
    t, exp = truth(pkts, flt, analysed)
    st = r.stats["rdh_stats"]
    for k in ["rdhs_seen", "rdhs_filtered", "payload_size", "links", "fee_id", "rdh_version", "data_format", "system_id", "hbfs_seen"]:
        out["events"] += 1
        if st.get(k) != t[k]:
            return bad("%s: statistics say %r, the input gives %r" % (k, st.get(k), t[k]))
    rt = st.get("run_trigger_type")
    if list(rt or []) != t["run_trigger_type"]:
        return bad("run_trigger_type: statistics say %r, the input gives %r" % (rt, t["run_trigger_type"]))
    if [list(x) for x in st["its_stats"]["layer_staves_seen"]] != t["layer_staves_seen"]:
        return bad("layer_staves_seen: statistics say %r, the input gives %r" % (st["its_stats"]["layer_staves_seen"], t["layer_staves_seen"]))
    for k, v in t["trigger_stats"].items():
        out["events"] += 1
        if st["trigger_stats"].get(k) != v:
            return bad("trigger_stats.%s: statistics say %r, the input gives %r" % (k, st["trigger_stats"].get(k), v))
    es = r.stats["error_stats"]
    nmsg = len(es["reported_errors"]) + len(es["custom_checks_stats_errors"])
    if es["total_errors"] != nmsg:
        return bad("total_errors: %d but %d messages are listed" % (es["total_errors"], nmsg))
    codes = set()
    for m in es["reported_errors"] + es["custom_checks_stats_errors"]:
        codes.update(obs.CODE.findall(m))
    if set(es["unique_error_codes"]) != codes or len(es["unique_error_codes"]) != len(set(es["unique_error_codes"])):
        return bad("unique_error_codes: %r but the messages carry %r" % (es["unique_error_codes"], sorted(codes)))
    if not r.stats.get("is_finalized"):
        return bad("is_finalized: false")
    if frames_truth and mode == ["check", "all", "its-stave"] and es["total_errors"] == 0:
        s, flags = frames_truth
        if flt is None:
            want = alpide.trailer_flag_counts(flags)
            got = (r.stats.get("alpide_stats") or {}).get("readout_flags")
            out["events"] += 7
            if got != want:
                return bad("alpide_stats: statistics say %r, the encoder produced %r" % (got, want))
    # report rows (check modes and writer to file)
    rows = r.report_rows()
    if rows:
        out["events"] += len(rows)
        chk = {"Total Errors": str(es["total_errors"]), "Total RDHs": str(t["rdhs_seen"]), "RDH Version": str(t["rdh_version"]),
               "Data Format": str(t["data_format"]), "System ID": t["system_id"]}
        if flt:
            chk["RDHs"] = str(t["rdhs_filtered"])
            chk["HBFs"] = str(t["hbfs_seen"])
        else:
            chk["Total HBFs"] = str(t["hbfs_seen"])
        for k, v in chk.items():
            if k in rows and rows[k] != v:
                return bad("report %s: shows %r, expected %r" % (k, rows[k], v))
        if "Run Trigger Type" in rows and int(rows["Run Trigger Type"], 16) != t["run_trigger_type"][0]:
            return bad("report Run Trigger Type: shows %s" % rows["Run Trigger Type"])
    elif mode[:1] == ["check"]:
        return bad("report: no report table on stdout in a check mode")
    return out


def giga_case(exe, wd, seed, res):
    """4.3 GB through a pipe (a block of 1000 packets with 8 kB payloads repeated 540 times): positions and byte counters beyond 2^32"""
    import subprocess, threading, json
    from common import Inconclusive
    rng = rng_for(seed, 600000)
    block = frame.generate(rng, 1000, payload="none", sane_headers=True)
    sysid = block[0].f["system_id"]
    for q in block:
        q.f["system_id"] = sysid
        q.payload = bytes(8000)
    bdata = frame.serialize(block)
    reps = 540
    mode = rng.choice([["view", "rdh"], ["check", "sanity", "-m"], ["check", "all", "-m"]])
    sp = os.path.join(wd, "giga.json")
    p = subprocess.Popen([exe] + mode + ["-S", sp, "-D", "json"], stdin=subprocess.PIPE, stdout=subprocess.PIPE, stderr=subprocess.PIPE, cwd=wd, env=dict(os.environ, TMPDIR=wd))
    tail = [b"", 0]

    def drain():
        while True:
            b = p.stdout.read(1 << 20)
            if not b:
                break
            tail[0] = (tail[0] + b)[-65536:]
            tail[1] += b.count(b"\n")
    t3 = threading.Thread(target=drain, daemon=True)
    t3.start()

    def feed():
        try:
            for _ in range(reps):
                p.stdin.write(bdata)
            p.stdin.close()
        except (BrokenPipeError, OSError):
            pass
    errbuf = []
    t = threading.Thread(target=feed, daemon=True)
    t2 = threading.Thread(target=lambda: errbuf.append(p.stderr.read()), daemon=True)
    t.start()
    t2.start()
    try:
        p.wait(timeout=1500)
    except subprocess.TimeoutExpired:
        p.kill()
        raise Inconclusive("giga case: watchdog (1500 s)")
    t.join(timeout=10)
    t2.join(timeout=10)
    t3.join(timeout=10)
    err = errbuf[0] if errbuf else b""
    rdir = save_replay("C14", "giga", {"stderr.txt": err[-20000:]}, dict(seed=seed, mode=mode, note="input: 540 x a generated 1000-packet block with 8000-byte payloads, see giga_case"))
    res.evaluations += 1
    desc = "giga: %d packets, %.2f GB through a pipe, %s" % (1000 * reps, len(bdata) * reps / 1e9, " ".join(mode))
    res.sample(desc)
    if p.returncode not in (0, 1):
        res.violation("stats:giga:abnormal", "%s: abnormal end (status %s): %s" % (desc, p.returncode, err.decode("utf-8", "replace")[-300:]), rdir)
        return
    full = json.load(open(sp))
    st = full["rdh_stats"]
    os.unlink(sp)
    if mode[0] == "view":
        import obs as _obs
        rows = _obs.parse_rdh_view(tail[0][tail[0].find(b"\n") + 1:])
        last_off = len(bdata) * (reps - 1) + block[-1].offset
        res.count("facts_compared", 2)
        if not rows or rows[-1][0] != last_off:
            res.violation("stats:giga:view", "%s: last row shown at %s, the last packet is at 0x%X" % (desc, rows and hex(rows[-1][0]), last_off), rdir)
            return
    if mode[0] == "check":
        # positions beyond 2^32: every message is located at the start of a packet (block structure), and messages exist beyond 4 GiB
        import obs as _obs
        offs_ok = set(q.offset for q in block)
        hi = 0
        for m in full["error_stats"]["reported_errors"]:
            o = _obs.Msg(m).offset
            res.count("facts_compared", 1)
            if o is None or (o % len(bdata)) not in offs_ok or o >= len(bdata) * reps:
                res.violation("stats:giga:offset", "%s: message located at %s, which is not the start of a packet: %s" % (desc, o, m[:80]), rdir)
                return
            hi = max(hi, o)
        if full["error_stats"]["reported_errors"] and hi < 2 ** 32:
            res.violation("stats:giga:offset", "%s: no message located beyond 4 GiB (highest 0x%X) although every block carries the same errors" % (desc, hi), rdir)
            return
    want = dict(rdhs_seen=1000 * reps, payload_size=8000 * 1000 * reps, hbfs_seen=sum(1 for q in block if q.f["stop_bit"] == 1) * reps)
    for k, v in want.items():
        res.count("facts_compared", 1)
        if st.get(k) != v:
            res.violation("stats:giga:%s" % k, "%s: %s: statistics say %r, the input gives %r" % (desc, k, st.get(k), v), rdir)
            return
    res.nontrivial.add(("giga", tuple(mode)))


def run(res):
    exe = build.fastpasta("rel")
    wd = scratch("c14")
    giga_case(exe, wd, res.seed, res)        # (about 5-15 s: the tool skips or scans payloads at about 1 GB/s)
    n = 260 if res.tier == "quick" else 16000
    big = 0
    for o in pmap(one_case, [(exe, wd, res.seed, c, res.tier) for c in range(n)]):
        res.evaluations += 1
        res.count("facts_compared", o["events"])
        if o["viol"]:
            res.violation(*o["viol"])
        if o["events"] > 0:
            res.nontrivial.add(o["key"])
        res.sample(o["sample"])
    res.rule = ("G-frame (arbitrary headers) and G-conf streams x 9 modes (5 checks, 3 views, filter writer) x filters x {JSON, TOML} x {file, pipe}; every "
                "statistic of the statement compared with the independent count; one scale case per run (140 000 packets, 17.7 MB of payload: all counters > 65 536, payload bytes > 2^24) and one 4.35 GB pipe (byte counters and positions > 2^32); non-trivial = distinct (mode, filter kind, format, generator, count class)")
    res.min_nontrivial = 40 if res.tier == "quick" else 120
    res.assumptions = ["one system id per stream (layer/stave statistics are only collected for ITS)", "no error cap, no fatal input error"]
