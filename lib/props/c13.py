"""C13 - stave-level ALPIDE frame checks are exact and ignore hit content.

Frames come from the independent ALPIDE encoder (lib/alpide.py). Observed: frame-level messages ([E72]-[E75], [E701], [E59]) at the frame's
start offset with their lane lists and inner codes ([E9003]-[E9005]), alpide_stats. Oracle: reference verdict below. Metamorphic: the same frame
skeleton encoded twice with different hit content must give the same verdict and the same readout-flag counters."""
import os, re
import build, obs, gen, its, alpide, rdh as R
from common import pmap, scratch, rng_for, save_replay, write_file

LEVEL = "exploration"
FATAL_APES = [0xF4, 0xF5, 0xF6, 0xF7, 0xF8, 0xF9, 0xFA, 0xFB, 0xFC]
WARNING_APES = [0xF2, 0xFD, 0xFE]      # APE_STRIP_START, APE_PE_DATA_MISSING, APE_OOT_DATA_MISSING
LANES_RE = re.compile(r"has errors in lane \[([0-9, ]*)\]")


class LaneSpec:
    def __init__(self, ident, chips, fatal_at=None):
        self.ident, self.chips, self.fatal_at = ident, chips, fatal_at   # chips: list of dict(id, bc, empty, flags)


def build_frame_spec(rng, layer, group, kind, dead):
    """Returns (list of LaneSpec, description). dead = idents that announced FATAL in an earlier frame (absent from now on)."""
    ib = layer <= 2
    lanes = [i for i in group if i not in dead]
    bc = rng.choice([0, 0, 255, 1, rng.randrange(256), rng.randrange(256)])
    what = kind
    if kind == "lanes_fewer" and len(lanes) > 1:
        lanes = lanes[:-rng.choice([1, 1, 2])] or lanes[:1]
    elif kind == "lanes_more":
        others = [i for g in its.lane_groups(layer) for i in g if i not in group]
        lanes = lanes + rng.sample(others, rng.choice([1, 2]))
    elif kind == "lanes_wrong_group" and ib:
        g2 = [g for g in its.IB_GROUPS if g != group][0]
        lanes = lanes[:-1] + [g2[rng.randrange(3)]]
    specs = []
    for ident in lanes:
        if ib:
            chips = [dict(id=ident & 0x1F, bc=bc)]
        else:
            ids = list(range(0, 7)) if rng.random() < 0.5 else list(range(8, 15))
            if rng.random() < 0.2:
                ids = rng.sample(range(15), rng.choice([1, 3, 7]))
            chips = [dict(id=c, bc=bc) for c in ids]
        specs.append(LaneSpec(ident, chips))
    if specs:
        victim = rng.choice(specs)
        if kind == "chip_bc_mismatch" and (len(victim.chips) > 1 or ib):
            if ib:
                victim.chips.append(dict(id=victim.chips[0]["id"] ^ 1, bc=(bc + 1) & 0xFF))   # second chip: count + bc mismatch
            else:
                victim.chips[rng.randrange(1, len(victim.chips))]["bc"] = (bc + rng.choice([1, 128])) & 0xFF
        elif kind == "lane_bc_mismatch" and len(specs) > 1:
            nb = (bc + rng.choice([1, 7, 255])) & 0xFF
            for c in victim.chips:
                c["bc"] = nb
        elif kind == "ib_chip_id" and ib:
            victim.chips[0]["id"] = (victim.chips[0]["id"] + rng.choice([1, 8])) & 0xF
            if victim.chips[0]["id"] == (victim.ident & 0x1F):
                victim.chips[0]["id"] ^= 1
        elif kind == "ib_two_chips" and ib:
            victim.chips.append(dict(id=(victim.chips[0]["id"] + 1) & 0xF, bc=bc))
        elif kind == "no_chip":
            victim.chips = []
        elif kind == "fatal":
            victim.fatal_at = rng.choice([0, len(victim.chips)])
    for sp in specs:
        for c in sp.chips:
            c["empty"] = rng.random() < 0.4
            c["flags"] = rng.choice([0, 0, 1, 2, 4, 8, 12, 14, 3, 5, 7, 15, 9])
    return specs, what


def reference_verdict(specs, layer, dead_before):
    """Expected frame-level codes at the frame start and the lanes listed in the lane error message."""
    ib = layer <= 2
    codes = set()
    if not specs:
        return {"701"}, set(), set()
    lane_err, inner = set(), set()
    validated = {}
    fatal_now = set()
    for sp in specs:
        n = its.lane_number(sp.ident)
        if sp.fatal_at is not None:
            fatal_now.add(sp.ident)
            continue
        errs = set()
        bcs = [c["bc"] for c in sp.chips]
        ids = [c["id"] for c in sp.chips]
        if len(set(ids)) != len(ids):
            errs.add("dup")
        if len(set(bcs)) > 1 or not sp.chips:
            errs.add("9003")
        if ib:
            if len(set(ids)) != 1 or len(ids) != 1:
                if len(ids) != 1:
                    errs.add("9004")
            elif ids[0] != n:
                errs.add("9005")
        if errs:
            lane_err.add(n)
            inner |= errs - {"dup"}
        else:
            validated[n] = bcs[0]
    if len(set(validated.values())) > 1:
        lane_err |= set(validated)
    if lane_err:
        codes.add("74" if ib else "75")
    # number of lanes / grouping: lanes that announced FATAL in an *earlier* frame are not expected any more
    expect = {"IB": 3, "ML": 8, "OL": 14}[its.barrel(layer)] - len(dead_before)
    present = [sp.ident for sp in specs]
    ok = len(present) == expect
    if ok and ib:
        nums = sorted(its.lane_number(i) for i in present)
        dead_nums = set(its.lane_number(i) for i in dead_before)
        ok = any(nums == [x for x in g if x not in dead_nums] for g in ([0, 1, 2], [3, 4, 5], [6, 7, 8]))
    if not ok:
        codes.add("72" if ib else "73")
    return codes, lane_err, inner


def encode_frame(rng, specs, nasty, many=False):
    per_lane = {}
    flags = []
    for sp in specs:
        chips = []
        for c in sp.chips:
            if c["empty"]:
                chips.append(alpide.Chip(c["id"], c["bc"], empty=True))
            else:
                chips.append(alpide.Chip(c["id"], c["bc"], flags=c["flags"], regions=alpide.random_hits(rng, nasty=nasty, many=many)))
                flags.append(c["flags"])
        data = bytearray()
        for k, c in enumerate(chips):
            if sp.fatal_at == k:
                data.append(rng.choice(FATAL_APES))
            elif rng.random() < 0.08:
                data.append(rng.choice(WARNING_APES))     # protocol extensions with lane status WARNING: logged, never an error, the lane stays in the frame
            data += c.encode() + bytes(rng.choice([0, 0, 1, 4]))
        if sp.fatal_at is not None and sp.fatal_at >= len(chips):
            data.append(rng.choice(FATAL_APES))
        elif data and rng.random() < 0.05:
            data.append(rng.choice(WARNING_APES))
        if not data:
            data = bytearray(rng.choice([1, 5, 9]))   # a lane word holding only padding
        per_lane[sp.ident] = alpide.to_data_words(sp.ident, bytes(data))
    return gen._interleave(rng, per_lane), flags


def build_stream(rng, layer, frames_words, fmt, version, split_prob, nodata_prob=0.0):
    """one link: HBFs of one or more data pages with the frames, then a stop page"""
    s = gen.Stream(version, fmt)
    group = None
    link = gen.Link(rng.randrange(12), layer, rng.randrange(R.STAVES_PER_LAYER[layer]), 0, [], rng.randrange(4096), 0)
    s.links = [link]
    pk = []
    orbit = rng.randrange(1, 1 << 30)
    ttype = gen.ORBIT | gen.HB | gen.TF
    state = dict(page=0)

    def rdh(stop):
        f = dict(header_id=version, fee_id=link.fee, link_id=link.link_id, bc=0, orbit=orbit, data_format=fmt, trigger_type=ttype,
                 pages_counter=state["page"], stop_bit=stop, system_id=32)
        state["page"] += 1
        return f
    words = [["IHW", its.ihw(0x0FFFFFFF)]]
    positions = []
    bc = 0
    alt_positions = []      # earliest no-data TDH directly preceding the frame (the tool locates the frame there), else None
    for fi, dws in enumerate(frames_words):
        tt, internal = (ttype & 0xFFF, 1) if (fi == 0) else (0, 1)
        alt = None
        if nodata_prob and rng.random() < nodata_prob:
            for _ in range(rng.choice([1, 2])):
                if alt is None:
                    alt = (len(pk), len(words))
                words.append(["TDH", its.tdh(tt, internal, 1, 0, bc, orbit)])
                tt = 0
                bc = min(0xDEB, bc + 3)
        alt_positions.append(alt)
        positions.append((len(pk), len(words)))
        words.append(["TDH", its.tdh(tt, internal, 0, 0, bc, orbit)])
        rest = list(dws)
        limit = 540 if fmt == 0 else 900
        while len(rest) >= 2 and (len(words) + len(rest) > limit or rng.random() < split_prob):
            room = max(1, limit - len(words))
            k = rng.randint(1, min(len(rest) - 1, room))
            words += [["DATA", w] for w in rest[:k]]
            rest = rest[k:]
            words.append(["TDT", its.tdt(packet_done=0)])
            pk.append(gen.Pkt(0, rdh(0), words, (-10 * len(words)) % 16 if fmt == 2 else 0))
            words = [["IHW", its.ihw(0x0FFFFFFF)], ["TDH", its.tdh(tt, internal, 0, 1, bc, orbit)]]
        words += [["DATA", w] for w in rest]
        words.append(["TDT", its.tdt(packet_done=1)])
        bc = min(0xDEB, bc + 198)
    pk.append(gen.Pkt(0, rdh(0), words, (-10 * len(words)) % 16 if fmt == 2 else 0))
    pk.append(gen.Pkt(0, rdh(1), [["DDW", its.ddw0()]], 6 if fmt == 2 else 0))
    s.pkts = [pk]
    s.order = [(0, i) for i in range(len(pk))]
    s.alt_positions = alt_positions
    return s, positions


KINDS = ["ok", "ok", "ok", "lanes_fewer", "lanes_more", "lanes_wrong_group", "chip_bc_mismatch", "lane_bc_mismatch", "ib_chip_id", "ib_two_chips", "no_chip",
         "fatal", "empty"]


def frame_messages(r, off):
    res = {}
    for m in r.reported():
        if m.offset == off and m.code in ("72", "73", "74", "75", "701", "59"):
            res.setdefault(m.code, []).append(m)
    return res


def one_case(args):
    exe, wd, seed, case, tier = args
    rng = rng_for(seed, case)
    out = dict(case=case, viol=None, frames=0, keys=set(), sample=None, meta=0)
    layer = rng.choice([0, 1, 2, 3, 4, 5, 6])
    groups = its.lane_groups(layer)
    group = rng.choice(groups)
    nframes = rng.choice([1, 2, 3, 5])
    specs_list, kinds = [], []
    dead = []
    truth = []
    for fi in range(nframes):
        kind = rng.choice(KINDS)
        if kind == "empty":
            specs, what = [], "empty"
        else:
            specs, what = build_frame_spec(rng, layer, group, kind, dead)
        if kind in ("ib_chip_id", "ib_two_chips", "lanes_wrong_group") and layer > 2:
            kind = what = "ok"
        codes, lanes_in_err, inner = reference_verdict(specs, layer, dead)
        announcing = [sp.ident for sp in specs if sp.fatal_at is not None]
        truth.append(dict(kind=kind, codes=codes, lanes=lanes_in_err, inner=inner, announcing=bool(announcing), nl=len(specs)))
        specs_list.append(specs)
        dead = dead + [i for i in announcing if i not in dead]
    fmt, version = rng.choice([0, 2]), rng.choice([6, 7])
    split = rng.choice([0.0, 0.0, 0.3])
    nodata = rng.choice([0.0, 0.0, 0.5])      # frames preceded by no-data TDHs
    # --mute-errors only silences the display (and drops the per-lane context lines): verdict, location and lane list must not change
    muted = case % 3 == 2
    # scale: every fifth case has lanes of several kB per frame (thousands of hit bytes, frames spread over many pages)
    long_lanes = case % 5 == 4 and layer <= 2
    runs = []
    for variant in range(2):   # same skeleton, different hit content
        vr = rng_for(seed, case, 100 + variant)
        fw, allflags = [], []
        for specs in specs_list:
            w, fl = encode_frame(vr, specs, nasty=(variant == 1), many=long_lanes)
            fw.append(w)
            allflags += fl
        srng = rng_for(seed, case, 7)   # identical page layout decisions for both variants where possible
        s, positions = build_stream(srng, layer, fw, fmt, version, split, nodata)
        data = s.serialize()
        path = os.path.join(wd, "c%d_%d.raw" % (case, variant))
        write_file(path, data)
        r = obs.run(exe, [path, "check", "all", "its-stave"] + (["-m"] if muted else []), workdir=wd, stats="json", tag="c%d" % case)
        os.unlink(path)
        runs.append((s, positions, data, r, allflags))
    desc = "layer %d (%s), %d frames %s, format %d%s" % (layer, its.barrel(layer), nframes, [t["kind"] for t in truth], fmt, (", -m" if muted else "") + (", long lanes" if long_lanes else ""))
    out["sample"] = desc

    def bad(what, sig, variant=0):
        s, positions, data, r, _ = runs[variant]
        d = save_replay("C13", "case%d" % case, {"input.raw": data, "stderr.txt": r.stderr, "stats.json": r.stats_raw or b"", "other_variant.raw": runs[1 - variant][2]},
                        dict(seed=seed, case=case, what=what, desc=desc, truth=[dict(t, codes=sorted(t["codes"]), lanes=sorted(t["lanes"]), inner=sorted(t["inner"])) for t in truth]))
        out["viol"] = (sig, "%s: %s" % (desc, what), d)
        return out
    verdicts = []
    for variant, (s, positions, data, r, allflags) in enumerate(runs):
        ab = r.abnormal()
        if ab or r.stats is None:
            return bad("abnormal end: %s" % ab, "frame:abnormal", variant)
        if r.stats["error_stats"].get("fatal_error"):
            raise RuntimeError("harness: generated stream is not well-framed: %s" % r.stats["error_stats"]["fatal_error"][:80])
        v = []
        for fi, (pi, wi) in enumerate(positions):
            off = s.pkts[0][pi].word_offsets[wi]
            fm = frame_messages(r, off)
            alt = s.alt_positions[fi]
            if alt is not None and not fm:
                # a run of no-data TDHs precedes the frame: "from a non-continuation TDH" is satisfied by the first of them too
                off = s.pkts[0][alt[0]].word_offsets[alt[1]]
                fm = frame_messages(r, off)
            got = set(fm)
            t = truth[fi]
            want = set(t["codes"])
            out["frames"] += 1
            out["keys"].add((its.barrel(layer), t["kind"], tuple(sorted(want))))
            sigx = None
            if t["announcing"]:
                # known finding D9: the frame in which a (present) lane announces FATAL is reported with a lane count error
                cnt = "72" if layer <= 2 else "73"
                if cnt in got and cnt not in want:
                    known_sig = "frame-lanes:announcing-fatal-lane-present"
                    out.setdefault("known", []).append((known_sig, "%s: frame %d at 0x%X announces a FATAL lane that is present and is rejected with [E%s] lane count" % (desc, fi, off, cnt)))
                    got = got - {cnt}
            if got != want:
                return bad("frame %d (%s) at 0x%X: reported %s, reference verdict %s (lanes %d)" % (fi, t["kind"], off, sorted(got) or "nothing", sorted(want) or "accept", t["nl"]),
                           "frame:verdict:%s:%s->%s" % (t["kind"], ",".join(sorted(want)), ",".join(sorted(got))), variant)
            for code in ("74", "75"):
                if code in fm:
                    mm = LANES_RE.search(fm[code][0].text)
                    lanes = set(int(x) for x in mm.group(1).replace(" ", "").split(",") if x) if mm else set()
                    if lanes != t["lanes"]:
                        return bad("frame %d at 0x%X: lanes in error listed %s, reference %s" % (fi, off, sorted(lanes), sorted(t["lanes"])), "frame:lanes:%s" % t["kind"], variant)
                    inner = set(c for c in ("9003", "9004", "9005") if "[E%s]" % c in fm[code][0].text)
                    if inner != t["inner"] and not muted:
                        return bad("frame %d at 0x%X: inner codes %s, reference %s" % (fi, off, sorted(inner), sorted(t["inner"])), "frame:inner:%s" % t["kind"], variant)
            v.append(tuple(sorted(got)))
        # no frame-level message anywhere else
        offs = set(s.pkts[0][pi].word_offsets[wi] for pi, wi in positions) | set(s.pkts[0][a[0]].word_offsets[a[1]] for a in s.alt_positions if a)
        stray = [m for m in r.reported() if m.code in ("74", "75", "701", "73") and m.offset not in offs]
        if stray:
            return bad("frame message at 0x%X, which is not the start of a frame: %s" % (stray[0].offset, stray[0].text[:80]), "frame:stray", variant)
        want_flags = alpide.trailer_flag_counts(allflags)
        got_flags = (r.stats.get("alpide_stats") or {}).get("readout_flags")
        if not any(t["announcing"] for t in truth) and got_flags != want_flags:
            return bad("alpide_stats %s, the encoder produced %s" % (got_flags, want_flags), "frame:alpide_stats", variant)
        verdicts.append((v, got_flags))
    out["meta"] = 1
    if verdicts[0] != verdicts[1]:
        return bad("verdict or flag counters depend on the hit content: %s vs %s" % (verdicts[0], verdicts[1]), "frame:hit-content")
    return out


def run(res):
    exe = build.fastpasta("rel")
    wd = scratch("c13")
    n = 300 if res.tier == "quick" else 30000
    for o in pmap(one_case, [(exe, wd, res.seed, c, res.tier) for c in range(n)]):
        res.evaluations += 2
        res.count("frames_judged", o["frames"])
        res.count("metamorphic_pairs", o["meta"])
        if o["viol"]:
            res.violation(*o["viol"])
        for k in o.get("known", []):
            res.violation(k[0], k[1], "findings/frame-lanes-announcing-fatal-lane-present")
        res.nontrivial |= o["keys"]
        if o["sample"]:
            res.sample(o["sample"])
    res.rule = ("frames from the independent ALPIDE encoder: barrel x {legal lane set, fewer, more, wrong inner group} x per-lane chip lists (ids, bunch counters, flags, empty frames, no chip, "
                "FATAL announcement) x random and header-like hit bytes, split over words/pages, 1..5 frames per stream, each stream encoded twice with different hits; "
                "non-trivial = distinct (barrel, frame kind, expected code set)")
    res.min_nontrivial = 20 if res.tier == "quick" else 30
    res.assumptions = ["a frame preceded by a run of no-data TDHs may be located at the first TDH of that run or at its own TDH (both are non-continuation TDHs)", "a lane that announced FATAL does not send data afterwards",
                       "IHW announces all lanes active (word-level lane checks are C11's)"]
