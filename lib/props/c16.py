"""C16 - exit status and error accounting follow the documented contract.

Observed: exit status, stdout, creation of output / statistics files, displayed error entries, report `Total Errors`, statistics total_errors.
Oracle: the contract table of DESIGN.md §3 C16."""
import os, json
import build, obs, gen, mutate, frame, rdh as R
from common import pmap, scratch, rng_for, save_replay, write_file

LEVEL = "exploration"


def errs_input(rng, n_mut):
    for _ in range(50):
        s = gen.generate(rng.getrandbits(40), n_links=rng.choice([1, 2, 4]), hbfs=rng.choice([1, 2, 3]))
        for _ in range(n_mut):
            mutate.mutate_once(rng, s, allow=("rdh", "word", "word", "pad"))
        for lp in s.pkts:
            for p in lp:
                p.f["system_id"] = 32
        f0 = s.pkts[s.order[0][0]][s.order[0][1]].f
        if f0.get("header_size", 0x40) == 0x40 and f0.get("priority_bit", 0) == 0 and f0.get("rdh0_reserved", 0) == 0 and f0["fee_id"] & 0x8CC0 == 0 \
                and (f0["fee_id"] & 0x3F) <= 47 and ((f0["fee_id"] >> 12) & 7) <= 6 and 3 <= f0["header_id"] <= 100:
            return s
    return s


def one_case(args):
    exe, wd, seed, case, tier = args
    rng = rng_for(seed, case)
    out = dict(case=case, viol=None, runs=0, key=None, sample=None)
    kind = rng.choice(["clean", "errors", "errors", "fatal", "custom", "mismatch", "badinput", "invalid", "codes", "codes", "cap", "mute", "noreport", "noreport", "storm"])
    N = rng.choice([1, 2, 7, 123, 255])
    mode = rng.choice(list(obs.MODES))
    margs = obs.MODES[mode]
    files = {}
    out["sample"] = "%s, -E %d, check %s" % (kind, N, mode)

    def bad(what, r=None):
        if r is not None:
            files["stderr.txt"] = r.stderr
            files["stdout.txt"] = r.stdout
            files["stats"] = r.stats_raw or b""
        d = save_replay("C16", "case%d" % case, files, dict(seed=seed, case=case, kind=kind, what=what, argv=getattr(r, "args", None)))
        out["viol"] = ("contract:%s:%s" % (kind, what.split(":")[0]), "%s: %s" % (out["sample"], what), d)
        return out

    def put(name, data):
        p = os.path.join(wd, "c%d_%s" % (case, name))
        write_file(p, data)
        files[name] = data
        return p

    def run(argv, **kw):
        out["runs"] += 1
        return obs.run(exe, argv, workdir=wd, tag="c%d" % case, **kw)

    def clean_all():
        for f in os.listdir(wd):
            if f.startswith("c%d_" % case):
                try:
                    os.unlink(os.path.join(wd, f))
                except OSError:
                    pass
    try:
        if kind == "clean":
            s = gen.generate(rng.getrandbits(40))
            p = put("in.raw", s.serialize())
            for opt in ([], ["-E", str(N)]):
                r = run([p] + margs + opt, stats="json")
                if r.abnormal(allowed_rc=(0,)):
                    return bad("clean input: %s (options %s)" % (r.abnormal(allowed_rc=(0,)), opt), r)
        elif kind in ("errors", "mute", "codes", "cap"):
            s = errs_input(rng, rng.choice([1, 2, 5, 12]))
            if kind == "codes" and rng.random() < 0.5:
                # codes that are prefixes of other codes present in the same run: [E44] + [E445] + [E444] on one TDH
                import its
                for lp in s.pkts:
                    for pk in lp:
                        if pk.f["pages_counter"] == 0 and len(pk.words) > 1 and pk.words[1][0] == "TDH":
                            t = its.tdh_fields(pk.words[1][1])
                            pk.words[1][1] = its.tdh(t["trigger_type"] ^ 0x8, t["internal"] | (0 if pk.f["trigger_type"] & 0x10 else 1), t["no_data"], 0, (t["bc"] + 1) % 0xDEC, t["orbit"] ^ 1)
            p = put("in.raw", s.serialize())
            r0 = run([p] + margs, stats="json")
            if r0.abnormal(allowed_rc=(0,)) or r0.stats is None:
                return bad("errors without -E: %s" % r0.abnormal(allowed_rc=(0,)), r0)
            es = r0.stats["error_stats"]
            if es.get("fatal_error"):
                return out
            k = es["total_errors"]
            shown0 = [m.text for m in r0.displayed_errors()]
            rows = r0.report_rows()
            if rows.get("Total Errors") != str(k):
                return bad("totals: report Total Errors = %r, statistics total_errors = %d" % (rows.get("Total Errors"), k), r0)
            if len(shown0) != k:
                return bad("totals: %d error entries displayed, total_errors = %d" % (len(shown0), k), r0)
            if [t.rstrip() for t in shown0] != [m.rstrip() for m in es["reported_errors"] + es["custom_checks_stats_errors"]]:
                return bad("totals: displayed messages differ from the statistics file's list", r0)
            r1 = run([p] + margs + ["-E", str(N)], stats="json")
            want = N if k else 0
            if r1.abnormal(allowed_rc=(want,)):
                return bad("exit: %d errors, -E %d: %s" % (k, N, r1.abnormal(allowed_rc=(want,))), r1)
            if kind == "mute":
                r2 = run([p] + margs + ["-m", "-E", str(N)], stats="json")
                if r2.abnormal(allowed_rc=(want,)) or r2.stats is None:
                    return bad("mute: exit %s" % r2.abnormal(allowed_rc=(want,)), r2)
                if r2.displayed_errors():
                    return bad("mute: %d messages displayed although muted" % len(r2.displayed_errors()), r2)
                if r2.total_errors() != k or r2.report_rows().get("Total Errors") != str(k):
                    return bad("mute: totals changed: %s / %s instead of %d" % (r2.total_errors(), r2.report_rows().get("Total Errors"), k), r2)
                # muting drops context lines only: the (location, code) list of the collected errors is the same
                l0 = [(m.offset, m.code) for m in r0.reported()]
                l2 = [(m.offset, m.code) for m in r2.reported()]
                if l0 != l2:
                    d = [x for x in l0 if x not in l2][:1] + [x for x in l2 if x not in l0][:1]
                    return bad("mute: the list of collected errors (location, code) changed under -m, e.g. %s" % (d,), r2)
            elif kind == "codes" and k:
                lead = [obs.Msg(t).code if t.startswith("0x") else (obs.CODE.match(t).group(1) if obs.CODE.match(t) else None) for t in shown0]
                present = sorted(set(c for c in lead if c))
                pool = present + present + ["1", "10", "100", "010", "9", "99", "7", "70", "700", "4", "44", "44", "444", "9003", "11"]
                codes = rng.sample(pool, rng.choice([1, 2, 3]))
                r3 = run([p] + margs + ["-w"] + codes, stats="json")
                if r3.abnormal(allowed_rc=(0,)):
                    return bad("codes: %s" % r3.abnormal(allowed_rc=(0,)), r3)
                want_list = [t for t, c in zip(shown0, lead) if c in codes]
                got = [m.text for m in r3.displayed_errors()]
                if got != want_list:
                    return bad("codes: -w %s shows %d messages, %d messages have one of these leading codes (first shown: %s)" % (
                        " ".join(codes), len(got), len(want_list), (got[:1] or ["-"])[0][:60]), r3)
                if r3.total_errors() != k:
                    return bad("codes: total_errors changed to %s under -w" % r3.total_errors(), r3)
                out["key"] = (kind, tuple(sorted(codes))[:3], len(want_list) > 0)
                return out
            elif kind == "cap" and k and rng.random() < 0.5:
                # cap together with a code filter: the first N of the collected messages that carry a listed leading code are shown
                cap = rng.choice([1, 2, 3, max(1, k - 1)])
                lead0 = [obs.Msg(t).code for t in shown0]
                present = sorted(set(c for c in lead0 if c))
                codes = rng.sample(present, min(len(present), rng.choice([1, 2]))) or ["10"]
                r5 = run([p] + margs + ["-e", str(cap), "-w"] + codes, stats="json")
                if r5.abnormal(allowed_rc=(0,)) or r5.stats is None:
                    return bad("cap+codes: %s" % r5.abnormal(allowed_rc=(0,)), r5)
                es5 = r5.stats["error_stats"]
                collected = es5["reported_errors"] + es5["custom_checks_stats_errors"]
                want5 = [t.rstrip() for t in collected if obs.Msg(t).code in codes][:cap]
                got5 = [m.text.rstrip() for m in r5.displayed_errors()]
                if got5 != want5:
                    return bad("cap+codes: -e %d -w %s shows %d messages; the first %d collected messages with these codes are %d" % (cap, " ".join(codes), len(got5), cap, len(want5)), r5)
            elif kind == "cap" and k:
                cap = rng.choice([1, 2, max(1, k - 1), k, k + 1])
                r4 = run([p] + margs + ["-e", str(cap), "-E", str(N)], stats="json")
                if r4.abnormal(allowed_rc=(N,)):
                    return bad("cap: -e %d: %s" % (cap, r4.abnormal(allowed_rc=(N,))), r4)
                if len(r4.displayed_errors()) > cap:
                    return bad("cap: %d messages displayed with -e %d" % (len(r4.displayed_errors()), cap), r4)
            out["key"] = (kind, mode, k > 0)
            return out
        elif kind == "fatal":
            s = gen.generate(rng.getrandbits(40), hbfs=3)
            pk = s.all_packets()
            j = rng.randrange(1, len(pk))
            pk[j].f["offset_to_next"] = rng.choice([0, 63, 10065, 20000, 0xFFFF])
            p = put("in.raw", s.serialize())
            for opt, want in (([], 0), (["-E", str(N)], N)):
                r = run([p] + margs + opt, stats="json")
                if r.abnormal(allowed_rc=(want,)):
                    return bad("fatal framing error at packet %d: %s (options %s, expected %d)" % (j, r.abnormal(allowed_rc=(want,)), opt, want), r)
                if r.stats is None or not r.stats["error_stats"].get("fatal_error"):
                    return bad("fatal: no fatal error recorded for offset_to_next = %d" % pk[j].f["offset_to_next"], r)
        elif kind == "storm":
            # scale: thousands of errors (beyond any internal chunk / buffer size of the display path), optionally ended by a fatal framing error or capped by -e N
            sub = rng.choice(["fatal_end", "cap", "cap", "plain"])
            # (the reader runs up to ~10 000 packets ahead of the validators, and errors that arrive after a fatal error are dropped by design: the
            # framing error sits behind 20 000 packets so that thousands of errors are collected before it)
            n = 20000 if sub == "fatal_end" else rng.choice([3000, 6000, 20000])
            fp = frame.generate(rng, n, payload="none", sane_headers=True)
            for q in fp:
                q.f["system_id"] = 32
                q.f["stop_bit"] = 2         # one [E10] per RDH at least
            data = bytearray(frame.serialize(fp))
            if sub == "fatal_end":
                data[fp[-1].offset + 8:fp[-1].offset + 10] = b"\xff\xff"
            p = put("in.raw", bytes(data))
            margs2 = rng.choice([["check", "sanity"], ["check", "all"]])
            out["sample"] = "%s (%s), %d RDHs with errors, %s" % (kind, sub, n, " ".join(margs2))
            if sub == "cap":
                cap = rng.choice([1025, 1500, 2048, 2049, 5000])
                r = run([p] + margs2 + ["-e", str(cap)], stats="json")
                if r.sig is not None or r.panicked() or r.timeout or r.stats is None:
                    return bad("cap: %s" % (r.abnormal() or "no statistics file"), r)
                shown = len(r.displayed_errors())
                if shown > cap:
                    return bad("cap: -e %d shows %d messages" % (cap, shown), r)
                if shown < min(cap, r.total_errors()):
                    return bad("cap: -e %d shows only %d messages although %d were collected" % (cap, shown, r.total_errors()), r)
                out["key"] = (kind, sub, cap, n)
                return out
            r = run([p] + margs2 + ["-E", str(N)], stats="json")
            if r.abnormal(allowed_rc=(N,)) or r.stats is None:
                return bad("storm: %s" % (r.abnormal(allowed_rc=(N,)) or "no statistics file"), r)
            es = r.stats["error_stats"]
            ftxt = str(es.get("fatal_error") or "\0")[:40]
            shown = len([m for m in r.displayed_errors() if "FATAL" not in m.text and ftxt not in m.text])
            if shown != es["total_errors"] or r.report_rows().get("Total Errors") != str(es["total_errors"]):
                return bad("totals: %d messages displayed, total_errors = %d, report row %s" % (shown, es["total_errors"], r.report_rows().get("Total Errors")), r)
            if sub == "fatal_end":
                if not es.get("fatal_error"):
                    return bad("fatal: no fatal error recorded", r)
                if "FATAL" not in r.stderr and str(es["fatal_error"])[:30] not in r.stderr:
                    return bad("fatal: the fatal error is not displayed", r)
                if es["total_errors"] <= 2048:
                    out["key"] = (kind, sub, "few collected")
                    return out
            elif es["total_errors"] < n:
                return bad("totals: %d RDHs with stop_bit = 2 but only %d errors" % (n, es["total_errors"]), r)
            out["key"] = (kind, sub, n)
            return out
        elif kind == "custom":
            s = gen.generate(rng.getrandbits(40))
            p = put("in.raw", s.serialize())
            t = put("checks.toml", "cdps = %d\n" % (len(s.all_packets()) + 1))
            r = run([p] + margs + ["-c", t, "-E", str(N)], stats="json")
            if r.abnormal(allowed_rc=(N,)):
                return bad("custom check failure: %s" % r.abnormal(allowed_rc=(N,)), r)
            r = run([p] + margs + ["-c", t], stats="json")
            if r.abnormal(allowed_rc=(0,)):
                return bad("custom check failure without -E: %s" % r.abnormal(allowed_rc=(0,)), r)
            # the custom-check failure is the only error of the run: it is accounted like any other (code list, code filter)
            if r.stats is not None:
                es = r.stats["error_stats"]
                if es["total_errors"] == 1 and "9001" not in [str(c) for c in es["unique_error_codes"]]:
                    return bad("codes: the run's only error is [E9001] but unique_error_codes = %s" % es["unique_error_codes"], r)
                if es["total_errors"] == 1:
                    r4 = run([p] + margs + ["-c", t, "-w", "9001"], stats="json")
                    if r4.abnormal(allowed_rc=(0,)):
                        return bad("codes: -w 9001: %s" % r4.abnormal(allowed_rc=(0,)), r4)
                    if "[E9001]" not in r4.stderr:
                        return bad("codes: -w 9001 does not show the [E9001] message that is the run's only error", r4)
        elif kind == "noreport":
            # the contract does not depend on whether a report is printed: views and filtered writing with a non-fatal error
            # ([E100] from an input that ends inside the last payload, [E9001] from a failing custom check) return N as well
            s = gen.generate(rng.getrandbits(40), n_links=rng.choice([1, 2, 4]))
            data = s.serialize()
            sub = rng.choice(["trunc", "custom", "both", "none"])
            if sub in ("trunc", "both"):
                w = R.walk(data)
                if w and w[-1].payload_len >= 2:
                    data = data[:len(data) - rng.randrange(1, w[-1].payload_len)]
            p = put("in.raw", data)
            copts = []
            if sub in ("custom", "both"):
                copts = ["-c", put("checks.toml", "cdps = %d\n" % (len(s.all_packets()) + rng.choice([1, 5])))]
            lk = rng.choice(s.links)
            how = rng.choice(["view rdh", "view its-readout-frames", "view its-readout-frames-data", "filter stdout", "filter file"])
            margs2 = {"filter stdout": ["-f", str(lk.link_id)], "filter file": ["-f", str(lk.link_id), "-o", os.path.join(wd, "c%d_filtered.raw" % case)]}.get(how) or how.split()
            out["sample"] = "%s (%s), %s, -E %d" % (kind, sub, how, N)
            r = run([p] + margs2 + copts + ["-E", str(N)], stats="json")
            if r.sig is not None or r.panicked() or r.timeout or r.stats is None:
                return bad("%s: %s" % (how, r.abnormal() or "no statistics file"), r)
            es = r.stats["error_stats"]
            k = es["total_errors"]
            want = N if (k or es.get("fatal_error")) else 0
            if r.rc != want:
                return bad("exit: %s with %d collected error(s) (%s): exit status %s, expected %d" % (how, k, (es["reported_errors"] + es["custom_checks_stats_errors"] + [""])[0][:60], r.rc, want), r)
            out["key"] = (kind, how, sub, k > 0)
            return out
        elif kind == "mismatch":
            s = gen.generate(rng.getrandbits(40))
            p = put("in.raw", s.serialize())
            a = run([p] + margs, stats="json")
            st = a.stats
            st["rdh_stats"]["rdhs_seen"] += 1
            sp = put("old.json", json.dumps(st))
            mute = ["-m"] if rng.random() < 0.5 else []
            r = run([p] + margs + ["-i", sp, "-E", str(N)] + mute)
            if r.abnormal(allowed_rc=(N,)):
                return bad("statistics mismatch%s: %s" % (" (muted)" if mute else "", r.abnormal(allowed_rc=(N,))), r)
        elif kind == "badinput":
            sub = rng.choice(["missing", "empty", "short", "random", "version", "text"])
            if sub == "missing":
                p = os.path.join(wd, "c%d_nonexistent.raw" % case)
            else:
                data = {"empty": b"", "short": bytes(rng.getrandbits(8) for _ in range(rng.randrange(1, 8))),
                        "random": bytes([rng.choice([0, 1, 2, 101, 255])] + [rng.getrandbits(8) for _ in range(500)]),
                        "version": R.pack(dict(R.DEFAULT, header_id=rng.choice([0, 1, 2, 101, 200]))) * 3,
                        "text": b"#!/bin/sh\necho this is not ALICE data\n" * 10}[sub]
                p = put("in.raw", data)
            outp = os.path.join(wd, "c%d_out.raw" % case)
            r = run([p] + (margs if rng.random() < 0.7 else ["-f", "1", "-o", outp]) + ["-E", str(N)])
            if r.sig is not None or r.panicked() or r.timeout:
                return bad("%s input: %s" % (sub, r.abnormal()), r)
            if r.rc == 0:
                return bad("%s input: exit status 0" % sub, r)
            out["key"] = (kind, sub)
            return out
        elif kind == "invalid":
            s = gen.generate(rng.getrandbits(40), n_links=1)
            p = put("in.raw", s.serialize())
            lk = s.links[0]
            sp = os.path.join(wd, "c%d_stats.json" % case)
            op = os.path.join(wd, "c%d_outdata.raw" % case)
            wrong_ext = put("old.txt", "{}")
            combos = {
                "sanity its-stave": [p, "check", "sanity", "its-stave", "-S", sp, "-D", "json"],
                "-E 0": [p] + margs + ["-E", "0", "-S", sp, "-D", "json"],
                "stats extension": [p] + margs + ["-i", wrong_ext, "-S", sp, "-D", "json"],
                "missing stats file": [p] + margs + ["-i", os.path.join(wd, "c%d_nofile.json" % case), "-S", sp, "-D", "json"],
                "-p without stave filter": [p, "check", "all", "its-stave", "-p", "198", "-S", sp, "-D", "json"],
                "-p with check all its": [p, "check", "all", "its", "-p", "198"] + R.filter_args("stave", lk.fee) + ["-S", sp, "-D", "json"],
                "-p with a view": [p, "view", "rdh", "-p", "198"] + R.filter_args("stave", lk.fee) + ["-S", sp, "-D", "json"],
                "-p with view its-readout-frames": [p, "view", "its-readout-frames", "-p", "198"] + R.filter_args("stave", lk.fee) + ["-S", sp, "-D", "json"],
                "-p with check sanity its": [p, "check", "sanity", "its", "-p", "198"] + R.filter_args("stave", lk.fee) + ["-S", sp, "-D", "json"],
                "-p with check sanity": [p, "check", "sanity", "-p", "198"] + R.filter_args("stave", lk.fee) + ["-S", sp, "-D", "json"],
                "-p with check all": [p, "check", "all", "-p", "198"] + R.filter_args("stave", lk.fee) + ["-S", sp, "-D", "json"],
                "-p with filtered writing": [p, "-p", "198", "-o", op] + R.filter_args("stave", lk.fee),
                "sanity its-stave with -p": [p, "check", "sanity", "its-stave", "-p", "198"] + R.filter_args("stave", lk.fee) + ["-S", sp, "-D", "json"],
                "-o without filter": [p, "-o", op],
                "-S without -D": [p] + margs + ["-S", sp],
                "two filters": [p] + margs + ["-f", "1", "-F", "2"],
            }
            if rng.random() < 0.25:
                # a statistics file whose extension differs only in case: either rejected up-front like any other extension, or accepted and processed normally
                a0 = run([p] + margs, stats="json")
                up = put(rng.choice(["old.JSON", "old.Json"]), a0.stats_raw or b"{}")
                r = run([p] + margs + ["-i", up, "-S", sp, "-D", "json"])
                if r.sig is not None or r.panicked() or r.rc not in (0, 1):
                    return bad("upper-case statistics extension: %s" % r.abnormal(), r)
                if r.rc != 0 and (r.stdout.strip() or os.path.exists(sp)):
                    return bad("upper-case statistics extension: rejected (exit %s) after output was written" % r.rc, r)
                out["key"] = (kind, "extension case")
                return out
            # every combination in every such case (each is rejected at once, so this is cheap)
            for name in combos:
                r = run(combos[name])
                if r.sig is not None or r.panicked() or r.timeout:
                    return bad("invalid combination `%s`: %s" % (name, r.abnormal()), r)
                if r.rc == 0:
                    return bad("invalid combination `%s`: exit status 0" % name, r)
                if r.stdout.strip():
                    return bad("invalid combination `%s`: output on stdout before rejection" % name, r)
                if os.path.exists(sp) or os.path.exists(op):
                    return bad("invalid combination `%s`: an output / statistics file was created" % name, r)
                out.setdefault("keys", []).append((kind, name))
            out["key"] = (kind, "all combinations")
            return out
        out["key"] = (kind, mode)
        return out
    finally:
        clean_all()


def run(res):
    exe = build.fastpasta("rel")
    wd = scratch("c16")
    n = 200 if res.tier == "quick" else 20000
    for o in pmap(one_case, [(exe, wd, res.seed, c, res.tier) for c in range(n)]):
        res.evaluations += o["runs"]
        if o["viol"]:
            res.violation(*o["viol"])
        if o["key"]:
            res.nontrivial.add(o["key"])
        if o["sample"]:
            res.sample(o["sample"], cap=8)
    res.rule = ("contract table x N in {1,2,7,123,255} x check modes: clean / k errors / mid-stream fatal framing error / custom-check failure / statistics mismatch / "
                "views and filtered writing with [E100] / [E9001] (no report printed) / storms of 3000..20000 errors (all displayed; -e N in {1025..5000} shows min(N, collected); fatal error after them still displayed) / missing, empty, short, non-ALICE input / 16 invalid option combinations (all of them in every such case) / -m / -w code lists incl. prefixes / -e around the true count; "
                "non-trivial = distinct (row of the table, configuration)")
    res.min_nontrivial = 40 if res.tier == "quick" else 120
    res.assumptions = ["totals compared with the displayed entries only for inputs without a fatal error and without display options", "-w matches the leading code of a message"]
