"""Thorough tier of C04: AddressSanitizer build, valgrind memcheck, Miri over the in-process driver."""
import os, subprocess, json, shutil
import build, inproc
from common import pmap, VERIF, BUILD, log
from props import c04


def miri(args, timeout=3600):
    env = dict(os.environ, RUSTFLAGS="--cfg fastpasta_verif", MIRIFLAGS="-Zmiri-disable-isolation", CARGO_NET_OFFLINE="true")
    hdir = build.harness_dir()
    cmd = ["cargo", "+nightly", "miri", "run", "--offline", "--target-dir", os.path.join(BUILD, "miri"), "--"] + [str(a) for a in args]
    p = subprocess.run(cmd, cwd=hdir, env=env, stdout=subprocess.PIPE, stderr=subprocess.PIPE, timeout=timeout)
    out = p.stdout.decode("utf-8", "replace").strip().split("\n")
    err = p.stderr.decode("utf-8", "replace")
    try:
        j = json.loads(out[-1])
    except Exception:
        j = None
    return p.returncode, j, err, cmd


def run(res, wd):
    # ---- AddressSanitizer -----------------------------------------------------------------------------
    try:
        asan = build.fastpasta("asan")
        c04.run_corpus(res, asan, wd, 30000, "asan", first_case=1_000_000)
    except build.BuildError as e:
        res.inconclusive.append("ASan build failed: %s" % str(e)[-300:])
    # ---- valgrind memcheck (uninitialised reads, which ASan does not see) -----------------------------------
    if shutil.which("valgrind"):
        rel = build.fastpasta("rel")
        vg = ["valgrind", "-q", "--error-exitcode=99", "--errors-for-leak-kinds=none", "--leak-check=no", rel]
        c04.run_corpus(res, vg, wd, 400, "memcheck", first_case=2_000_000)
    else:
        res.inconclusive.append("valgrind not found")
    # ---- Miri over the unsafe sites ---------------------------------------------------------------------
    try:
        rc, j, err, cmd = miri(["unsafe", "--seed", res.seed])
        jobs = [["scan", "--seed", res.seed * 100 + i, "--cases", 16, "--max-packets", 16, "--files", 0, "--small", 1] for i in range(15)]
        results = [(rc, j, err, cmd)] + pmap(miri, jobs)
        n_ok = 0
        for rc, j, err, cmd in results:
            if "Undefined Behavior" in err or "error: unsupported operation" in err and "Undefined" in err:
                from common import save_replay
                d = save_replay("C04", "miri_%d" % n_ok, {"stderr.txt": err}, dict(cmd=cmd))
                res.violation("miri:" + (err.split("Undefined Behavior:")[1].split("\n")[0][:60] if "Undefined Behavior:" in err else "UB"),
                              "Miri reports undefined behaviour in the library: %s" % err[err.find("Undefined Behavior"):][:500], d)
            elif j is None or rc != 0:
                res.inconclusive.append("Miri run gave no result (rc=%s): %s" % (rc, err[-200:]))
            else:
                n_ok += 1
                res.count("miri_cases", j.get("cases", 0) + j.get("scans", 0))
                res.count("miri_packets_compared", j.get("packets_returned_and_compared", 0))
        res.count("miri_runs_clean", n_ok)
    except Exception as e:
        res.inconclusive.append("Miri not usable: %r" % (e,))
