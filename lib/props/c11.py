"""C11 - word-level sanity predicates are exact for all 80-bit values (in-process, reference predicates from bit layouts)."""
import inproc
from common import pmap

LEVEL = "exploration"


def run(res):
    quick = res.tier == "quick"
    shards = 2 if quick else 16
    per = 1_000_000 if quick else 200_000_000
    outs = pmap(lambda i: inproc.check(res, "words", ["--seed", res.seed * 1000 + i, "--random", per], "words", "status/data word predicates"), range(shards))
    outs = [o for o in outs if o]
    if not outs:
        return
    o = outs[0]
    res.evaluations = sum(x["status_word_evaluations"] + x["data_word_evaluations"] for x in outs)
    # structured enumeration is identical in every shard: count it once
    structured = o["structured"]
    for k in range(min(structured, 5000)):
        res.nontrivial.add(k)
    res.extra.update(structured_words_per_type=structured // 4, structured_total=structured,
                     random_words=sum(x["status_word_evaluations"] - x["structured"] for x in outs),
                     reference_rejects=sum(x["reference_rejects"] for x in outs),
                     reference_accepts=sum(x["reference_accepts"] for x in outs),
                     data_word_cases=o["data_word_evaluations"], data_word_reported=o["data_word_reported"],
                     distinct_structured_words=structured)
    res.exhaustive = False
    res.rule = ("per word type: 256 identifier bytes x {zero body, 72 single bits, 2556 bit pairs, all ones} + all 59640 bit triples and all 2628 contiguous runs of ones under the own identifier (complete) + random bodies; "
                "data words: 256 identifiers x {empty, full, 28 single-lane, 28 all-but-one, 64 random} active-lane masks; "
                "non-trivial = distinct structured word (capped at 5000 in distinct_nontrivial, exact number in distinct_structured_words)")
    res.samples = ["IHW id 0xE0 + single bit 28 -> must fail", "TDH id 0xE8 body 0 -> must fail (no trigger)", "TDT id 0xF0 + bit 66 -> must fail",
                   "DDW0 id 0xE4 + bit 68 (index) -> must fail", "OB id 0x47 -> [E73]", "IB id 0x23 mask without lane 3 -> [E72]"]
    res.min_nontrivial = 1000
    res.assumptions = ["bit layouts as in DESIGN.md §3 C11 (DDW0 index must be 0: property statement; doc/checks_list.md 'index >= 1' is a slip)"]
