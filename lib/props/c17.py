"""C17 - early stop is orderly: signals, closed pipes, error cap, fatal errors.

Observed: whether the process exits (logical no-progress criterion, /proc), exit status / terminating signal, panic text, framing of a partial -o file.
Stop conditions are placed at logical instants: after chunk k of the input was delivered, after n bytes of output were read, at packet index i."""
import os, signal
import build, obs, gen, mutate, frame, procmon, rdh as R
from common import pmap, scratch, rng_for, save_replay, write_file

LEVEL = "fault_enumeration"


def big_stream(rng, npk, errors=False, nlinks=None):
    s = gen.generate(rng.getrandbits(40), target_packets=npk, hbfs=1, n_links=nlinks or rng.choice([2, 4, 8]), hits="none", max_triggers=1, max_pages=1,
                     merge=rng.choice(["roundrobin", "random"]))
    if errors:
        for lp in s.pkts:
            for i, p in enumerate(lp):
                if i >= 2 and rng.random() < 0.2:
                    p.f["bc"] = 0xFFF
    return s


def big_stop_case(exe, wd, seed, case, tier, kind):
    """scale: the stop condition arises early in a very long piped input (640 000 packets, 41 MB). Being cut short is observable at the producer: the tool must
    go away long before it has consumed the whole input (its queues hold at most some 10^4 packets), whatever the cap value / the amount of output buffered."""
    import frame
    rng = rng_for(seed, case)
    out = dict(case=case, viol=None, key=None, sample=None, inconclusive=None)
    block = frame.generate(rng, 10000, payload="none", sane_headers=True)
    for q in block:
        q.f["system_id"] = 32
        q.f["stop_bit"] = 2            # an [E10] on every RDH
    data = frame.serialize(block) * 64
    N = rng.choice([3, 9])
    env = dict(os.environ, TMPDIR=wd)
    if kind == "cap_big":
        cap = rng.choice([65, 100, 127, 1000, 1025, 4097])
        argv = [exe] + rng.choice([["check", "sanity"], ["check", "all"]]) + ["-e", str(cap), "-E", str(N), "-m"]
        kw = dict(stdin_data=data, chunk=65536)
        desc = "cap_big: 640000 packets with an error each from a pipe, -e %d" % cap
    else:
        n = rng.choice([0, 4096, 65536, 300000])
        argv = [exe, "view", "rdh"] + rng.choice([[], ["-d"]])
        kw = dict(stdin_data=data, chunk=65536, close_stdout_after=n)
        desc = "close_big: view rdh of 640000 packets from a pipe, stdout closed after %d bytes" % n
    out["sample"] = desc
    nchunks = (len(data) + 65535) // 65536
    o = procmon.run(argv, env=env, cwd=wd, cpu_limit=120.0, **kw)

    def bad(what):
        d = save_replay("C17", "case%d" % case, {"stderr.txt": o.stderr[-20000:]}, dict(seed=seed, case=case, argv=argv, kind=kind, what=what, note="input: 64 x a 10000-packet RDH-only block, see big_stop_case"))
        out["viol"] = ("stop:%s:%s" % (kind, what.split(":")[0]), "%s: %s" % (desc, what), d)
        return out
    if o.inconclusive:
        out["inconclusive"] = "%s: %s" % (desc, o.inconclusive)
        return out
    if o.hung:
        return bad("no progress: the process is alive, all threads sleep and no CPU time is consumed (deadlock)")
    if o.cpu_exceeded:
        return bad("no termination: %.0f s of CPU time consumed" % o.cpu_exceeded)
    if o.sig is not None:
        return bad("killed by signal %d" % o.sig)
    if o.panicked():
        return bad("panic: %s" % [l for l in o.stderr.split("\n") if "panicked" in l or "embarrassing" in l][:1])
    if o.rc not in (0, 1, N):
        return bad("exit status %s" % o.rc)
    if o.fed >= nchunks:
        return bad("not cut short: the whole input (%d chunks of 64 KiB) was consumed although the stop condition arose within the first few thousand packets" % nchunks)
    out["key"] = (kind, o.fed * 100 // nchunks // 10)
    return out


def one_case(args):
    exe, wd, seed, case, tier = args
    rng = rng_for(seed, case)
    out = dict(case=case, viol=None, key=None, sample=None, inconclusive=None)
    kind = ["signal_pipe", "signal_file", "close_view", "close_data", "close_stats", "cap", "fatal", "fatal_stall", "signal_writer"][case % 9]
    if case % 45 in (5, 20):
        return big_stop_case(exe, wd, seed, case, tier, "cap_big" if case % 45 == 5 else "close_big")
    N = rng.choice([3, 9])
    env = dict(os.environ)
    env["TMPDIR"] = wd
    sched = None
    if rng.random() < 0.7:
        sched = "%d:%d" % (seed * 977 + case, rng.choice([20, 100, 300]))
        if rng.random() < 0.3:
            sched += ":%d:%d:%d" % (rng.choice([4, 7, 2, 5]), rng.choice([5, 30]), rng.choice([1, 3]))
        env["FASTPASTA_VERIF_SCHED"] = sched
    npk = rng.choice([300, 2000, 6000]) if tier == "quick" else rng.choice([300, 2000, 12000, 30000])
    # an output destination given together with a check / view is documented as ignored (warning); the reader's queue (100 batches of 100
    # packets) only fills up with more than ~10 100 matching packets, so these cases use one long link
    ignored_output = kind in ("signal_pipe", "signal_file", "cap", "fatal", "fatal_stall") and rng.random() < 0.4
    one_link = None
    if ignored_output:
        npk = 16000 if tier == "quick" else rng.choice([16000, 40000])
        one_link = 1
    files = {}
    argv = None
    kw = {}
    allowed = (0, 1, N)
    out_path = None
    expected_filtered = None
    if kind in ("signal_pipe", "signal_file", "signal_writer"):
        s = big_stream(rng, npk, errors=rng.random() < 0.5, nlinks=one_link)
        data = s.serialize()
        mode = rng.choice([["check", "all", "its"], ["check", "all", "its-stave"], ["view", "rdh"], ["check", "sanity"], ["view", "its-readout-frames"]])
        signum = rng.choice([signal.SIGINT, signal.SIGTERM])
        nchunks = (len(data) + 16383) // 16384
        if kind == "signal_pipe":
            argv = [exe] + mode + ["-E", str(N)]
            kw = dict(stdin_data=data, chunk=16384, signal_after_chunk=rng.randrange(0, nchunks + 1), signum=signum)
            if rng.random() < 0.4:
                # the upstream goes quiet right after the signal (no data, no end of input) for longer than any internal polling interval
                kw["pause"] = (kw["signal_after_chunk"], rng.choice([0.7, 1.6]))
        elif kind == "signal_file":
            p = os.path.join(wd, "c%d.raw" % case)
            write_file(p, data)
            argv = [exe, p] + mode + ["-E", str(N)]
            kw = dict(signal_after_stdout=rng.choice([0, 1, 100, 5000, 200000]), signum=signum)
            if kw["signal_after_stdout"] == 0:
                kw = dict(stdin_data=b"", signal_after_chunk=0, signum=signum)
        else:
            lk = rng.choice(s.links)
            out_path = os.path.join(wd, "c%d.out" % case)
            argv = [exe, "-f", str(lk.link_id), "-o", out_path]
            kw = dict(stdin_data=data, chunk=16384, signal_after_chunk=rng.randrange(0, nchunks + 1), signum=signum)
            expected_filtered = b"".join(R.pack(p.full) + p.payload(s.fmt) for p in s.all_packets() if s.links[p.link].link_id == lk.link_id)
        desc = "%s: %d packets, %s, signal %s at %s" % (kind, npk, " ".join(argv[1:6]), signum.name, {k: v for k, v in kw.items() if k.startswith("signal_after")})
    elif kind in ("close_view", "close_data", "close_stats"):
        # -S stdout: many errors make the statistics larger than the pipe buffer, so that the write is in flight when the reader goes away
        if kind == "close_data" and rng.random() < 0.4:
            # one long link: every packet matches, so the writer's own buffering thresholds are crossed while the reader of stdout goes away
            npk, one_link = (20000 if tier == "quick" else rng.choice([20000, 50000])), 1
        s = big_stream(rng, npk, errors=(kind == "close_stats"), nlinks=one_link)
        data = s.serialize()
        p = os.path.join(wd, "c%d.raw" % case)
        write_file(p, data)
        n = rng.choice([0, 0, 1, 4096, 65535, 65536, 65537, rng.randrange(1, 300000)])
        if kind == "close_view":
            argv = [exe, p, "view", rng.choice(["rdh", "its-readout-frames", "its-readout-frames-data"])] + rng.choice([[], ["-d"]])
        elif kind == "close_data":
            argv = [exe, p, "-f", str(rng.choice(s.links).link_id)] + rng.choice([[], ["-o", "stdout"]])
        else:
            argv = [exe, p, "check", "all", "its", "-S", "stdout", "-D", rng.choice(["json", "toml"])]
        kw = dict(close_stdout_after=n)
        desc = "%s: %d packets, %s, stdout closed after %d bytes" % (kind, npk, " ".join(argv[2:6]), n)
    elif kind == "cap":
        s = big_stream(rng, npk, errors=True, nlinks=one_link or rng.choice([4, 8, 12]))
        data = s.serialize()
        p = os.path.join(wd, "c%d.raw" % case)
        write_file(p, data)
        cap = rng.choice([1, 2, 3, 10, 50])
        cap_pipe = rng.random() < 0.4
        argv = [exe] + ([] if cap_pipe else [p]) + rng.choice([["check", "all"], ["check", "all", "its"], ["check", "all", "its-stave"]]) + ["-e", str(cap), "-E", str(N)]
        desc = "cap: %d packets with errors on %d links, -e %d" % (npk, len(s.links), cap)
        if cap_pipe:
            # from a pipe whose producer goes quiet (neither data nor end of input) for a while at a random chunk, typically after the cap was reached
            nchunks = (len(data) + 16383) // 16384
            kw = dict(stdin_data=data, chunk=16384, pause=(rng.randrange(0, nchunks + 1), rng.choice([0.7, 1.6])))
            desc += ", pipe with a quiet producer at chunk %d for %.1f s" % kw["pause"]
    else:
        s = big_stream(rng, npk if kind == "fatal" else max(npk, 12000), nlinks=one_link or rng.choice([1, 2, 4]))
        pk = s.all_packets()
        i = rng.choice([0, 1, 50, 99, 100, 101, len(pk) // 2, len(pk) - 1])
        pk[i].f["offset_to_next"] = rng.choice([0, 10, 10065, 0xFFFF])
        data = s.serialize()
        p = os.path.join(wd, "c%d.raw" % case)
        write_file(p, data)
        if kind == "fatal_stall":
            env["FASTPASTA_VERIF_SCHED"] = "%d:50:%d:%d:%d" % (seed + case, rng.choice([4, 7, 5]), rng.choice([20, 100, 700]), rng.choice([1, 5]))
            sched = env["FASTPASTA_VERIF_SCHED"]
        use_pipe = rng.random() < 0.5
        argv = [exe] + ([] if use_pipe else [p]) + rng.choice([["check", "all", "its"], ["check", "all", "its-stave"], ["view", "rdh"], ["check", "all"]]) + ["-E", str(N)]
        if len(s.links) > 1 and not ignored_output and rng.random() < 0.5:
            # the framing error sits in a packet that a filter skips (the skip loop has its own handling of the offset)
            other = [l for l in s.links if l.link_id != s.links[pk[i].link].link_id]
            argv += ["-f", str(rng.choice(other).link_id)]
        if use_pipe:
            kw = dict(stdin_data=data, chunk=32768)
            if rng.random() < 0.5:
                nchunks = (len(data) + 32767) // 32768
                kw["pause"] = (rng.randrange(0, nchunks + 1), rng.choice([0.7, 1.6]))
        desc = "%s: fatal framing error at packet %d of %d, %s" % (kind, i, len(pk), " ".join(argv[1:5]))
    if ignored_output:
        argv = argv + ["-f", str(s.links[0].link_id), "-o", os.path.join(wd, "c%d.ignored" % case)]
        desc += " + ignored -f/-o"
    out["sample"] = desc + (" [schedule %s]" % sched if sched else "")
    cpu_bound = 30.0 + len(data) / 50000.0     # normal runs need well under a second of CPU time per MB
    o = procmon.run(argv, env=env, cwd=wd, cpu_limit=cpu_bound, **kw)

    def bad(what):
        files.update({"stderr.txt": o.stderr, "stdout.head": o.stdout[:4000]})
        if len(data) < 3_000_000:
            files["input.raw"] = data
        d = save_replay("C17", "case%d" % case, files, dict(seed=seed, case=case, argv=argv, kind=kind, sched=sched, what=what, kw={k: (v if not isinstance(v, bytes) else len(v)) for k, v in kw.items()}))
        out["viol"] = ("stop:%s:%s" % (kind, what.split(":")[0]), "%s: %s" % (out["sample"], what), d)
        return out
    try:
        if o.inconclusive:
            out["inconclusive"] = "%s: %s" % (desc, o.inconclusive)
            return out
        if o.hung:
            return bad("no progress: the process is alive, all threads sleep and no CPU time is consumed after the stop condition (deadlock)")
        if o.cpu_exceeded:
            return bad("no termination: %.0f s of CPU time consumed (bound %.0f s for %d bytes of input) and still running after the stop condition" % (o.cpu_exceeded, cpu_bound, len(data)))
        if "WARNING: ThreadSanitizer" in o.stderr:
            i = o.stderr.find("WARNING: ThreadSanitizer")
            return bad("ThreadSanitizer: %s" % " | ".join(l.strip() for l in o.stderr[i:i + 3000].split("\n") if "ThreadSanitizer" in l or "/repo/" in l or "fastpasta" in l)[:600])
        if o.sig is not None:
            return bad("killed by signal %d" % o.sig)
        if o.panicked():
            return bad("panic: %s" % [l for l in o.stderr.split("\n") if "panicked" in l or "embarrassing" in l][:1])
        if o.rc not in allowed:
            return bad("exit status %s" % o.rc)
        if out_path is not None and os.path.exists(out_path):
            with open(out_path, "rb") as f:
                got = f.read()
            w = R.walk(got)
            whole = sum(64 + x.payload_len for x in w) == len(got)
            if not whole:
                return bad("partial output: the -o file (%d bytes) does not consist of whole packets" % len(got))
            if not expected_filtered.startswith(got):
                return bad("partial output: the -o file is not a prefix of the expected filtered sequence")
        out["key"] = (kind, o.signalled, sched is not None, npk)
    finally:
        for f in os.listdir(wd):
            if f.startswith("c%d." % case):
                try:
                    os.unlink(os.path.join(wd, f))
                except OSError:
                    pass
    return out


def run(res):
    exe = build.fastpasta("rel" if res.tier == "quick" else "ship")
    wd = scratch("c17")
    n = 180 if res.tier == "quick" else 4000
    jobs = [(exe, wd, res.seed, c, res.tier) for c in range(n)]
    if res.tier == "thorough":
        # race detector pass: the same stop scenarios (quick sizes) on a ThreadSanitizer build; any report (data race, lock-order inversion, thread leak) is a violation
        try:
            tsan = build.fastpasta("tsan")
            jobs += [(tsan, wd, res.seed, 100000 + c, "quick") for c in range(360)]
            res.extra["tsan_executions"] = 360
        except build.BuildError as e:
            res.inconclusive.append("ThreadSanitizer build failed: %s" % str(e)[-300:])
    for o in pmap(one_case, jobs, workers=12):
        res.evaluations += 1
        if o["viol"]:
            res.violation(*o["viol"])
        if o["inconclusive"]:
            res.inconclusive.append(o["inconclusive"])
        if o["key"]:
            res.nontrivial.add(o["key"])
        if o["sample"]:
            res.sample(o["sample"], cap=9)
    res.rule = ("stop conditions x schedules: SIGINT/SIGTERM after chunk k of a piped input / after n bytes of output / during filtered writing; stdout closed after n bytes "
                "(n in {0, 1, 4 KiB, 64 KiB +- 1, random}) for views, filtered data and -S stdout; error cap -e N on inputs with errors on many links; fatal framing error at packet i "
                "(with stalled validators / collector so that queues are full); two scale cases per 45 (640 000-packet pipe: cap values 65..4097 and an early closed stdout must cut the run short); each under a seeded H1 schedule; non-trivial = distinct (kind, signal sent, schedule, size)")
    res.min_nontrivial = 30 if res.tier == "quick" else 60
    res.assumptions = ["a single stop signal (a second one is documented as ungraceful)", "the upstream of a pipe eventually delivers or closes (it may go quiet for up to 1.6 s first)",
                       "a signal is delivered once the tool has installed its handler (/proc/<pid>/status SigCgt; bounded wait of 5 s, then it is sent anyway)",
                       "thorough tier runs the exact shipped profile (LTO, 1 CGU)"]
