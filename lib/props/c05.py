"""C05 - results do not depend on thread scheduling.

The same (input, command line) is run K times under different schedule perturbations (hook H1: seeded yields / sleeps at the channel hand-offs,
plus "stall one validator" and "stall the collector" profiles). Observed: ordered error list on stderr, stdout without the timing line, bytes of the
statistics file, exit status; the collector's arrival trace (hook H2) measures how many distinct pre-sort arrival orders were actually produced."""
import os, hashlib
import build, obs, gen, mutate, its, rdh as R
from common import pmap, scratch, rng_for, save_replay, write_file

LEVEL = "exploration"


def make_input(rng, hbfs=None):
    for _ in range(30):
        s = gen.generate(rng.getrandbits(40), n_links=rng.choice([4, 6, 8, 12]) if hbfs is None else 4, hbfs=hbfs or rng.choice([2, 3]), max_pages=2, hits=rng.choice(["none", "few"]),
                         barrels=[rng.choice(["IB", "ML", "OL"])] if rng.random() < 0.5 else ["IB", "ML", "OL"])
        # several errors at the same offset on many links: sanity + running error on one RDH, two state errors on one TDH
        for lp in s.pkts:
            for i, p in enumerate(lp):
                if i >= 2 and rng.random() < 0.5:
                    p.f["pages_counter"] = (p.f["pages_counter"] + 3) & 0xFFFF      # E11
                    p.f["bc"] = 0xFFF                                               # E10
                if len(p.words) > 1 and p.words[1][0] == "TDH" and rng.random() < 0.4:
                    t = its.tdh_fields(p.words[1][1])
                    p.words[1][1] = its.tdh(t["trigger_type"], t["internal"], t["no_data"], 1, t["bc"], t["orbit"] ^ 1)   # E42 + E444
        # frame-level errors on several staves (their messages carry the FEE id): one lane's data words removed from a frame
        for lp in s.pkts:
            for p in lp:
                ids = [w[9] for k, w in p.words if k == "DATA"]
                if ids and rng.random() < 0.3:
                    victim = ids[0]
                    p.words = [[k, w] for k, w in p.words if not (k == "DATA" and w[9] == victim)]
        for _ in range(rng.choice([0, 3, 10])):
            mutate.mutate_once(rng, s, allow=("word", "word", "pad"))
        mutate.remerge(rng, s)
        l0, i0 = s.order[0]
        f = s.pkts[l0][i0].f
        if f["bc"] <= 0xDEB or True:
            return s
    return s


def norm_stdout(b):
    t = obs.strip_ansi(b.decode("utf-8", "replace"))
    return "\n".join(l for l in t.split("\n") if "Processed in" not in l)


def storm_case(exe, wd, seed, case, K, rng, out):
    """scale: more errors than any internal buffer / threshold of the collecting path (> 16 384 muted, > 4096 with context), coming from several validator threads"""
    import frame
    muted = (case // 6) % 2 == 0        # stratified: both flavours in every run
    nl, per = (4, 5000) if muted else (2, 3000)
    fp = frame.generate(rng, nl * per, payload="none", sane_headers=True)
    for i, q in enumerate(fp):
        q.f["system_id"] = 32
        q.f["link_id"] = i % nl
        q.f["fee_id"] = 0x1000 * (i % nl) + 3
        q.f["stop_bit"] = 2 if i % 3 else q.f["stop_bit"]
    data = frame.serialize(fp)
    path = os.path.join(wd, "c%d.raw" % case)
    write_file(path, data)
    argv = [path] + rng.choice([["check", "sanity"], ["check", "all"]]) + (["-m"] if muted else [])
    try:
        ref = obs.run(exe, argv, workdir=wd, stats="json", tag="c%d" % case)
        if ref.abnormal() or ref.stats is None:
            out["viol"] = ("sched:abnormal", "abnormal end of the reference run: %s" % ref.abnormal(), save_replay("C05", "case%d" % case, {"stderr.txt": ref.stderr[-20000:]}, dict(argv=argv, seed=seed, case=case)))
            return out
        out["errors"] = ref.total_errors()
        # (only the ordered list of displayed error entries counts: WARN log lines of different threads interleave freely and are not results)
        def errs_hash(x):
            return hashlib.sha1("\n".join(m.text for m in x.displayed_errors()).encode()).hexdigest()
        ref_sig = (errs_hash(ref), norm_stdout(ref.stdout), hashlib.sha1(ref.stats_raw).hexdigest(), ref.rc)
        orders = set()
        for k in range(min(K, 8)):
            sd = seed * 1000 + case * 100 + k
            sched = ["%d:200" % sd, "%d:50" % sd, "%d:100:4:20:3" % sd, "%d:100:7:40:2" % sd][k % 4]
            trace = os.path.join(wd, "c%d_%d.trace" % (case, k))
            r = obs.run(exe, argv, workdir=wd, stats="json", env={"FASTPASTA_VERIF_SCHED": sched, "FASTPASTA_VERIF_TRACE": trace}, tag="c%d" % case)
            out["runs"] += 1
            if os.path.exists(trace):
                with open(trace, "rb") as f:
                    orders.add(hashlib.sha1(f.read()).hexdigest())
                os.unlink(trace)
            sig = (errs_hash(r), norm_stdout(r.stdout), hashlib.sha1(r.stats_raw or b"").hexdigest(), r.rc)
            if sig != ref_sig:
                part = ["error messages on stderr", "stdout (report)", "statistics file bytes", "exit status"][[a == b for a, b in zip(sig, ref_sig)].index(False)]
                d = save_replay("C05", "case%d" % case, {"ref.stats": ref.stats_raw or b"", "run.stats": r.stats_raw or b""}, dict(seed=seed, case=case, argv=argv, sched=sched, what=part,
                                note="input: frame.generate storm, see lib/props/c05.py storm_case (regenerated from seed / case)"))
                out["viol"] = ("sched:%s" % part.split(" ")[0], "storm of %d errors on %d links (%s): run under schedule %s differs from the unperturbed run in: %s" % (
                    out["errors"], nl, "muted" if muted else "with context", sched, part), d)
                break
        out["orders"] = len(orders)
    finally:
        os.unlink(path)
    out["key"] = ("storm", muted, nl)
    out["variant"] = "storm"
    out["sample"] = "[storm] %d links, %d errors, %s, %d distinct arrival orders in %d runs" % (nl, out["errors"], "muted" if muted else "with context", out["orders"], out["runs"])
    return out


def one_case(args):
    exe, wd, seed, case, tier, K = args
    rng = rng_for(seed, case)
    out = dict(case=case, viol=None, runs=0, orders=0, errors=0, key=None, sample=None, same_offset=0)
    # variants (stratified): "trunc" = the input ends inside the payload of its last packet, whose RDH also carries errors (messages of the reader and of a
    # validator about the same packet); "filter" = a link filter plus an (ignored) -o next to the check, with more than one batch of matching packets
    variant = {1: "trunc", 2: "filter", 3: "storm"}.get(case % 6, "plain")
    if variant == "storm" and "/tsan/" in exe:
        variant = "plain"        # (race-detector pass: the storms are left to the uninstrumented build)
    if variant == "storm":
        return storm_case(exe, wd, seed, case, K, rng, out)
    s = make_input(rng, hbfs=rng.choice([40, 70]) if variant == "filter" else None)
    if variant == "trunc":
        l, i = s.order[-1]
        last = s.pkts[l][i]
        last.f["pages_counter"] = (last.f["pages_counter"] + 3) & 0xFFFF
        last.f["bc"] = 0xFFF
    data = s.serialize()
    if variant == "trunc":
        w = R.walk(data)
        plen = w[-1].payload_len
        if plen >= 2:
            data = data[:len(data) - rng.randrange(1, plen)]
        else:
            variant = "plain"
    path = os.path.join(wd, "c%d.raw" % case)
    write_file(path, data)
    # stratified: half of the cases in stave mode (the only mode where several kinds of statistics are merged from many threads)
    mode = ["all_its_stave", "all_its", "all_its_stave", "all", rng.choice(["view rdh", "view its-readout-frames"]), "all_its_stave"][case % 6]
    opts = [[], [], [], ["-m"]][case % 4]
    fmt = ["json", "toml"][(case // 2) % 2]
    argv = [path] + (obs.MODES[mode] if mode in obs.MODES else mode.split() + rng.choice([[], ["-d"]])) + opts
    if variant == "filter":
        argv += ["-f", str(rng.choice(s.links).link_id), "-o", os.path.join(wd, "c%d.ignored" % case)]
    try:
        ref = obs.run(exe, argv, workdir=wd, stats=fmt, tag="c%d" % case)
        if "WARNING: ThreadSanitizer" in ref.stderr:
            i = ref.stderr.find("WARNING: ThreadSanitizer")
            what = " | ".join(l.strip() for l in ref.stderr[i:i + 3000].split("\n") if "ThreadSanitizer" in l or "/repo/" in l)[:600]
            out["viol"] = ("sched:tsan", "ThreadSanitizer report in the unperturbed run: %s" % what, save_replay("C05", "case%d" % case, {"input.raw": data, "stderr.txt": ref.stderr}, dict(seed=seed, case=case, argv=argv)))
            return out
        if ref.abnormal() or ref.stats is None:
            out["viol"] = ("sched:abnormal", "abnormal end of the reference run: %s" % ref.abnormal(), save_replay("C05", "case%d" % case, {"input.raw": data, "stderr.txt": ref.stderr}, dict(argv=argv)))
            return out
        if ref.stats["error_stats"].get("fatal_error"):
            return out
        msgs = ref.reported()
        out["errors"] = len(msgs)
        offs = [m.offset for m in msgs]
        out["same_offset"] = sum(1 for o in set(offs) if offs.count(o) > 1)
        ref_sig = ([m.text for m in ref.displayed_errors()], norm_stdout(ref.stdout), ref.stats_raw, ref.rc)
        orders = set()
        for k in range(K):
            prof = k % 6
            sd = seed * 1000 + case * 100 + k
            sched = {0: "%d:200" % sd, 1: "%d:50" % sd,
                     2: "%d:100:4:%d:3" % (sd, rng.choice([5, 20])),      # stall validators at their first packets
                     3: "%d:100:7:%d:2" % (sd, rng.choice([10, 40])),     # stall the collector
                     4: "%d:100:6:%d:3" % (sd, rng.choice([10, 40])),     # stall the forwarder of the reader's statistics / errors
                     5: "%d:100:%d:%d:2" % (sd, rng.choice([2, 9, 1]), rng.choice([10, 40]))}[prof]   # stall the analysis thread / dispatcher / reader
            trace = os.path.join(wd, "c%d_%d.trace" % (case, k))
            r = obs.run(exe, argv, workdir=wd, stats=fmt, env={"FASTPASTA_VERIF_SCHED": sched, "FASTPASTA_VERIF_TRACE": trace}, tag="c%d" % case)
            out["runs"] += 1
            if os.path.exists(trace):
                with open(trace) as f:
                    elines = [l for l in f.read().split("\n") if l.startswith("E\t")]
                orders.add(hashlib.sha1("\n".join(elines).encode()).hexdigest())
                os.unlink(trace)
            sig = ([m.text for m in r.displayed_errors()], norm_stdout(r.stdout), r.stats_raw, r.rc)
            if "WARNING: ThreadSanitizer" in r.stderr:
                i = r.stderr.find("WARNING: ThreadSanitizer")
                what = " | ".join(l.strip() for l in r.stderr[i:i + 3000].split("\n") if "ThreadSanitizer" in l or "/repo/" in l)[:600]
                out["viol"] = ("sched:tsan", "ThreadSanitizer report under schedule %s: %s" % (sched, what), save_replay("C05", "case%d" % case, {"input.raw": data, "stderr.txt": r.stderr}, dict(seed=seed, case=case, argv=argv, sched=sched)))
                break
            if sig != ref_sig:
                part = ["order / content of the error messages on stderr", "stdout (report)", "statistics file bytes", "exit status"][[a == b for a, b in zip(sig, ref_sig)].index(False)]
                detail = ""
                if sig[0] != ref_sig[0] and len(sig[0]) == len(ref_sig[0]):
                    j = next(i for i in range(len(sig[0])) if sig[0][i] != ref_sig[0][i])
                    detail = " first difference at message #%d: %r vs %r" % (j, sig[0][j][:70], ref_sig[0][j][:70])
                d = save_replay("C05", "case%d" % case, {"input.raw": data, "ref.stderr.txt": ref.stderr, "run.stderr.txt": r.stderr, "ref.stats": ref.stats_raw or b"", "run.stats": r.stats_raw or b""},
                                dict(seed=seed, case=case, argv=argv, sched=sched, what=part))
                out["viol"] = ("sched:%s" % part.split(" ")[0], "%d links, %d errors (%d offsets with several errors), check %s %s: run under schedule %s differs from the unperturbed run in: %s%s" % (
                    len(s.links), len(msgs), out["same_offset"], mode, opts, sched, part, detail), d)
                break
        out["orders"] = len(orders)
    finally:
        os.unlink(path)
    for f in (os.path.join(wd, "c%d.ignored" % case),):
        if os.path.exists(f):
            os.unlink(f)
    out["key"] = (mode, tuple(opts), fmt, len(s.links), variant)
    out["variant"] = variant
    out["sample"] = ("" if variant == "plain" else "[%s] " % variant) + "%d links, %d errors, %d offsets carrying several errors, check %s %s, %d distinct arrival orders in %d runs" % (len(s.links), out["errors"], out["same_offset"], mode, opts, out["orders"], out["runs"])
    return out


def run(res):
    exe = build.fastpasta("rel")
    wd = scratch("c05")
    quick = res.tier == "quick"
    n, K = (12, 12) if quick else (300, 80)
    explored = 0
    tot_orders = 0
    jobs = [(exe, wd, res.seed, c, res.tier, K) for c in range(n)]
    if not quick:
        # race detector pass: a sample of the cases on a ThreadSanitizer build (reports are violations; the comparison with the unperturbed run applies as well)
        try:
            tsan = build.fastpasta("tsan")
            jobs += [(tsan, wd, res.seed, 50000 + c, res.tier, 8) for c in range(48)]
            res.extra["tsan_cases"] = 48
        except build.BuildError as e:
            res.inconclusive.append("ThreadSanitizer build failed: %s" % str(e)[-300:])
    for o in pmap(one_case, jobs, workers=8):
        res.evaluations += o["runs"]
        tot_orders += o["orders"]
        if o["viol"]:
            res.violation(*o["viol"])
        if (o["orders"] >= 3 and o["errors"] > 20 and o["same_offset"] > 0) or (o["key"] and o["key"][0].startswith("view") and o["runs"]) or (
                o.get("variant") in ("trunc", "storm") and o["orders"] >= 2) or (o.get("variant") == "filter" and o["runs"] >= 6):
            explored += 1
            res.nontrivial.add(o["case"])
        elif o["key"]:
            res.inconclusive.append("case %d: only %d distinct arrival orders / %d errors" % (o["case"], o["orders"], o["errors"]))
        if o["sample"]:
            res.sample(o["sample"], cap=8)
    res.extra.update(cases=n, runs_per_case=K, cases_explored=explored, distinct_arrival_orders_total=tot_orders)
    res.rule = ("multi-link inputs (4..12 links) with several errors at the same offset and > 20 errors in total x {all, all its, all its-stave} x {-, -m} x {JSON, TOML}, plus stratified variants: input ending inside the "
                "last payload whose RDH also has errors, a link filter with an (ignored) -o next to the check on > 100 matching packets, and storms of 6000 (with context) / 20000 (muted) errors from 2..4 links; each run "
                "K times under distinct H1 schedules (yield/sleep <= 200 us, stalled validators / collector / statistics forwarder / analysis thread / reader) and compared with the unperturbed run; "
                "non-trivial = case with >= 3 distinct pre-sort arrival orders observed (H2), > 20 errors and same-offset errors")
    res.min_nontrivial = 6 if quick else 30
    res.assumptions = ["no error cap, no fatal input error (excluded by the statement)", "perturbation only at existing thread hand-off points"]
