"""C02 - every documented violation is detected with its code and location.

A conforming G-conf stream is altered by one catalogue fault; in every check mode where the rule is documented active the
statistics file and stderr must hold >= 1 message of the rule's code family at the offset of the offending RDH / word, and the
run must exit with the configured any-errors status. A purely stateful fault must leave `check sanity [its]` silent.
Existence, not equality: cascades after the fault never matter."""
import os
import build, obs, gen, its, rdh as R
from common import pmap, scratch, rng_for, save_replay, write_file

LEVEL = "fault_enumeration"
ALL5 = ["sanity", "all", "sanity_its", "all_its", "all_its_stave"]
ITS3 = ["sanity_its", "all_its", "all_its_stave"]
RUN3 = ["all", "all_its", "all_its_stave"]
RUNITS = ["all_its", "all_its_stave"]


# ---- helpers to find positions ---------------------------------------------------------------------
def link_pkts(s, rng, pred, pos):
    """packets (link, index, pkt) of a random link satisfying pred; pos in {first, middle, last}"""
    links = list(range(len(s.pkts)))
    rng.shuffle(links)
    for l in links:
        c = [(l, i, p) for i, p in enumerate(s.pkts[l]) if pred(l, i, p)]
        if c and pos == "p256":
            # scale position: the packet whose index in its link is a multiple of 256 (per-link counters of any width below 16 bits wrap there)
            cc = [x for x in c if x[1] > 0 and x[1] % 256 == 0]
            if cc:
                return cc[rng.randrange(len(cc))]
            continue
        if c:
            return c[{"first": 0, "middle": len(c) // 2, "last": -1}[pos]]
    return None


def not_file_first(s):
    first = s.order[0]
    return lambda l, i, p: (l, i) != first


def widx(p, kind, which=0, pred=None):
    idx = [k for k, (kd, w) in enumerate(p.words) if kd == kind and (pred is None or pred(w))]
    return idx[which] if idx and -len(idx) <= which < len(idx) else None


def set_bits(word, value_fn):
    v = int.from_bytes(word[:9], "little")
    v = value_fn(v)
    return (v & ((1 << 72) - 1)).to_bytes(9, "little") + word[9:]


class Fault:
    def __init__(self, name, codes, modes, stateful, apply):
        self.name, self.codes, self.modes, self.stateful, self.apply = name, codes, modes, stateful, apply


def rdh_fault(name, field, values, modes=ALL5, codes=("10",), pred=None, stateful=False, first_ok=False):
    def apply(s, rng, pos):
        base = not_file_first(s) if not first_ok else (lambda l, i, p: True)
        t = link_pkts(s, rng, lambda l, i, p: base(l, i, p) and (pred is None or pred(s, l, i, p)), pos)
        if not t:
            return None
        l, i, p = t
        v = rng.choice(values(p) if callable(values) else values)
        p.f[field] = v
        return dict(target=("rdh", l, i), what="%s = %#x" % (field, v))
    return Fault(name, set(codes), modes, stateful, apply)


def word_fault(name, kind, mut, codes, modes, stateful=False, which=0, wpred=None, ppred=None):
    def apply(s, rng, pos):
        t = link_pkts(s, rng, lambda l, i, p: widx(p, kind, which, wpred) is not None and (ppred is None or ppred(s, l, i, p)), pos)
        if not t:
            return None
        l, i, p = t
        k = widx(p, kind, which, wpred)
        new = mut(p.words[k][1], rng, s, p)
        if new is None or new == p.words[k][1]:
            return None
        p.words[k][1] = new
        return dict(target=("word", l, i, k), what="%s word %d -> [%s]" % (kind, k, new.hex(" ")))
    return Fault(name, set(codes), modes, stateful, apply)


def with_id(i):
    return lambda w, rng, s, p: w[:9] + bytes([i if not callable(i) else i(rng)])


def setbit(bits):
    return lambda w, rng, s, p: set_bits(w, lambda v: v | (1 << rng.choice(bits)))


def tdh_mod(**kw):
    def f(w, rng, s, p):
        t = its.tdh_fields(w)
        a = dict(trigger_type=t["trigger_type"], internal=t["internal"], no_data=t["no_data"], cont=t["cont"], bc=t["bc"], orbit=t["orbit"])
        for k, v in kw.items():
            a[k] = v(a[k], rng) if callable(v) else v
        return its.tdh(**a)
    return f


def is_cont(w):
    return bool(w[1] & 0x40)


def not_cont(w):
    return not (w[1] & 0x40)


# ---- special faults ----------------------------------------------------------------------------------
def f_stop_page(name, field, value, codes):
    """alter the RDH of a stop page; the state dependent error is located at the DDW0 word"""
    def apply(s, rng, pos):
        t = link_pkts(s, rng, lambda l, i, p: p.f["stop_bit"] == 1 and widx(p, "DDW") is not None, pos)
        if not t:
            return None
        l, i, p = t
        p.f[field] = value
        return dict(target=("word", l, i, widx(p, "DDW")), what="stop page RDH %s = %d" % (field, value))
    return Fault(name, set(codes), RUNITS, True, apply)


def f_ihw_stop():
    def apply(s, rng, pos):
        t = link_pkts(s, rng, lambda l, i, p: p.f["stop_bit"] == 0 and p.words and p.words[0][0] == "IHW" and not
                      (len(p.words) > 1 and p.words[1][0] == "TDH" and is_cont(p.words[1][1])), pos)
        if not t:
            return None
        l, i, p = t
        p.f["stop_bit"] = 1
        return dict(target=("word", l, i, 0), what="data page RDH stop_bit = 1")
    return Fault("IHW in a packet with stop bit 1", {"12"}, RUNITS, True, apply)


def f_page_counter():
    def apply(s, rng, pos):
        t = link_pkts(s, rng, lambda l, i, p: i >= 2, pos)
        if not t:
            return None
        l, i, p = t
        p.f["pages_counter"] = (p.f["pages_counter"] + rng.choice([1, 2, 5])) & 0xFFFF
        return dict(target=("rdh", l, i), what="pages_counter + k")
    return Fault("page counter not the expected one", {"11"}, RUN3, True, apply)


def f_orbit_same_after_stop():
    def apply(s, rng, pos):
        t = link_pkts(s, rng, lambda l, i, p: i >= 2 and p.f["pages_counter"] == 0 and s.pkts[l][i - 1].f["stop_bit"] == 1, pos)
        if not t:
            return None
        l, i, p = t
        prev = s.pkts[l][i - 1].f["orbit"]
        # the whole HBF gets the previous orbit, so that only the "orbit unchanged after stop" rule is broken at this RDH
        j = i
        while j < len(s.pkts[l]):
            q = s.pkts[l][j]
            q.f["orbit"] = prev
            for w in q.words:
                if w[0] == "TDH":
                    f = its.tdh_fields(w[1])
                    w[1] = its.tdh(f["trigger_type"], f["internal"], f["no_data"], f["cont"], f["bc"], prev)
            j += 1
            if q.f["stop_bit"] == 1:
                break
        return dict(target=("rdh", l, i), what="orbit of the HBF equal to the previous HBF's")
    return Fault("orbit unchanged after a stop page", {"11"}, RUN3, True, apply)


def f_field_changes_in_hbf(field, newv):
    def apply(s, rng, pos):
        t = link_pkts(s, rng, lambda l, i, p: i >= 2 and p.f["pages_counter"] != 0, pos)
        if not t:
            return None
        l, i, p = t
        p.f[field] = newv(p.f[field], rng)
        return dict(target=("rdh", l, i), what="%s changed on a page != 0" % field)
    return Fault("%s changes inside an HBF" % field, {"11"}, RUN3, field != "fee_id", apply)


def f_lane_inactive():
    def apply(s, rng, pos):
        t = link_pkts(s, rng, lambda l, i, p: p.words and p.words[0][0] == "IHW" and widx(p, "DATA") is not None, pos)
        if not t:
            return None
        l, i, p = t
        k = widx(p, "DATA", rng.choice([0, -1]))
        ident = p.words[k][1][9]
        lane = its.lane_number(ident)
        first = next(j for j, (kd, w) in enumerate(p.words) if kd == "DATA" and w[9] == ident)
        act = int.from_bytes(p.words[0][1][:4], "little") & 0xFFFFFFF
        p.words[0][1] = its.ihw(act & ~(1 << lane))
        return dict(target=("word", l, i, first), what="IHW active_lanes without lane %d" % lane)
    return Fault("data word of a lane that is not active in the IHW", {"71", "72"}, RUNITS, True, apply)


def f_ob_input7():
    def apply(s, rng, pos):
        t = link_pkts(s, rng, lambda l, i, p: s.links[l].layer >= 3 and widx(p, "DATA") is not None, pos)
        if not t:
            return None
        l, i, p = t
        k = widx(p, "DATA", rng.choice([0, -1]))
        w = p.words[k][1]
        p.words[k][1] = w[:9] + bytes([(w[9] & 0xF8) | 7])
        return dict(target=("word", l, i, k), what="OB data word identifier -> connector input 7")
    return Fault("outer barrel data word with connector input 7", {"73"}, RUNITS, False, apply)


def f_padding():
    def apply(s, rng, pos):
        if s.fmt != 2:
            return None
        t = link_pkts(s, rng, lambda l, i, p: True, pos)
        l, i, p = t
        p.pad = rng.choice([16, 17, 20, 31, 40])
        only_ff = pos == "last" and i > 0
        if only_ff:
            p.words = []          # degenerate: the payload consists of nothing but the padding
        return dict(target=("rdh", l, i), what="%d bytes of 0xFF padding%s" % (p.pad, " and no word at all" if only_ff else ""), text="Payload error")
    return Fault("more than 15 bytes of 0xFF at the end of the payload", set(), ITS3, False, apply)


def f_cdw_index():
    def apply(s, rng, pos):
        links = list(range(len(s.pkts)))
        rng.shuffle(links)
        for l in links:
            c = [(i, widx(p, "CDW")) for i, p in enumerate(s.pkts[l]) if widx(p, "CDW") is not None]
            if len(c) >= 2:
                i, k = c[{"first": 1, "middle": max(1, len(c) // 2), "last": len(c) - 1}[pos]]
                w = s.pkts[l][i].words[k][1]
                user = int.from_bytes(w[:6], "little") ^ (1 << rng.randrange(48))
                s.pkts[l][i].words[k][1] = its.cdw(user, rng.randrange(1, 1 << 24))
                return dict(target=("word", l, i, k), what="CDW with a new user field and index != 0")
        return None
    return Fault("CDW index not 0 after the user field changed", {"81"}, RUNITS, True, apply)


def f_tdh_bc_decreasing():
    def apply(s, rng, pos):
        def ok(l, i, p):
            t = [k for k, (kd, w) in enumerate(p.words) if kd == "TDH"]
            return any(p.words[k][0] == "TDH" and its.tdh_fields(p.words[k][1])["bc"] > 0 and k > 1 and not is_cont(p.words[k][1]) and
                       p.words[k - 1][0] in ("TDT", "TDH") for k in t)
        t = link_pkts(s, rng, ok, pos)
        if not t:
            return None
        l, i, p = t
        ks = [k for k, (kd, w) in enumerate(p.words) if kd == "TDH" and k > 1 and not is_cont(w) and p.words[k - 1][0] in ("TDT", "TDH")]
        prev_bc = None
        for k in ks:
            pk = max(j for j in range(k) if p.words[j][0] == "TDH")
            prev_bc = its.tdh_fields(p.words[pk][1])["bc"]
            if prev_bc > 0:
                f = its.tdh_fields(p.words[k][1])
                p.words[k][1] = its.tdh(f["trigger_type"], f["internal"], f["no_data"], f["cont"], rng.randrange(prev_bc), f["orbit"])
                return dict(target=("word", l, i, k), what="TDH trigger_bc below the previous TDH's")
        return None
    return Fault("TDH bunch counter decreasing after a completed packet", {"440"}, RUNITS, True, apply)


def _tdh_after(s, rng, pos, prev_kind):
    """set the continuation bit on a TDH whose predecessor in the same payload is a TDT (packet done) / a no-data TDH"""
    def cands(p):
        return [k for k in range(2, len(p.words)) if p.words[k][0] == "TDH" and not_cont(p.words[k][1]) and p.words[k - 1][0] == prev_kind]
    t = link_pkts(s, rng, lambda l, i, p: bool(cands(p)), pos)
    if not t:
        return None
    l, i, p = t
    k = rng.choice(cands(p))
    f = its.tdh_fields(p.words[k][1])
    p.words[k][1] = its.tdh(f["trigger_type"], f["internal"], f["no_data"], 1, f["bc"], f["orbit"])
    return dict(target=("word", l, i, k), what="TDH word %d (after a %s) continuation = 1" % (k, prev_kind))


def first_tdh_page0(s, l, i, p):
    return p.f["pages_counter"] == 0 and len(p.words) > 1 and p.words[1][0] == "TDH"


CATALOGUE = [
    # ---- RDH sanity (E10): all five modes -----------------------------------------------------------------
    rdh_fault("RDH header size", "header_size", [0, 0x3F, 0x41, 0xFF]),
    rdh_fault("RDH header id differs from the first one seen", "header_id", lambda p: [6 if p.f["header_id"] == 7 else 7, 3, 8],
              pred=lambda s, l, i, p: i >= 1),
    rdh_fault("FEE id reserved bit", "fee_id", lambda p: [p.f["fee_id"] | b for b in (0x40, 0x80, 0x400, 0x800, 0x8000)]),
    rdh_fault("FEE id layer 7", "fee_id", lambda p: [p.f["fee_id"] | 0x7000]),
    rdh_fault("FEE id stave 49..63", "fee_id", lambda p: [(p.f["fee_id"] & ~0x3F) | v for v in (49, 56, 63)]),
    rdh_fault("FEE id stave 48 (first invalid value)", "fee_id", lambda p: [(p.f["fee_id"] & ~0x3F) | 48]),
    rdh_fault("RDH priority bit", "priority_bit", [1, 0x80, 0xFF]),
    rdh_fault("RDH0 reserved", "rdh0_reserved", [1, 0x8000, 0xFFFF]),
    rdh_fault("RDH1 reserved", "rdh1_reserved", [1, 0x80000, 0xFFFFF]),
    rdh_fault("RDH bc above 0xdeb", "bc", [0xDED, 0xFFF, 0xE00], first_ok=True),
    rdh_fault("RDH bc = 0xdec (first invalid value)", "bc", [0xDEC], first_ok=True),
    rdh_fault("RDH stop bit above 1", "stop_bit", [2, 3, 0xFF], first_ok=True),
    rdh_fault("RDH trigger type 0", "trigger_type", [0], first_ok=True),
    rdh_fault("RDH trigger type spare bit", "trigger_type", lambda p: [p.f["trigger_type"] | (1 << b) for b in range(16, 26)], first_ok=True),
    rdh_fault("RDH trigger type lowest spare bit (15)", "trigger_type", lambda p: [p.f["trigger_type"] | (1 << 15)], first_ok=True),
    rdh_fault("RDH trigger type highest spare bit (26)", "trigger_type", lambda p: [p.f["trigger_type"] | (1 << 26)], first_ok=True),
    rdh_fault("RDH2 reserved", "rdh2_reserved", [1, 0x80], first_ok=True),
    rdh_fault("RDH3 reserved", "rdh3_reserved", [1, 0x8000], first_ok=True),
    rdh_fault("detector field reserved bits 13..22", "detector_field", lambda p: [p.f["detector_field"] | (1 << b) for b in range(13, 23)], first_ok=True),
    rdh_fault("detector field lowest reserved bit (12)", "detector_field", lambda p: [p.f["detector_field"] | (1 << 12)], first_ok=True),
    rdh_fault("detector field highest reserved bit (23)", "detector_field", lambda p: [p.f["detector_field"] | (1 << 23)], first_ok=True),
    rdh_fault("RDH dw above 1", "dw", [2, 3, 15], first_ok=True),
    rdh_fault("RDH data format above 2", "data_format", [3, 4, 255], pred=lambda s, l, i, p: s.fmt == 2),
    rdh_fault("system id is not the ITS one", "system_id", [33, 19, 3], modes=ITS3),
    # ---- RDH running (E11): stateful -----------------------------------------------------------------------
    f_page_counter(),
    f_orbit_same_after_stop(),
    f_field_changes_in_hbf("orbit", lambda v, rng: (v + rng.choice([1, 2, 1 << 20])) & 0xFFFFFFFF),
    f_field_changes_in_hbf("trigger_type", lambda v, rng: v ^ rng.choice([0x4, 0x8, 0x800])),
    f_field_changes_in_hbf("fee_id", lambda v, rng: v ^ 0x100 if (v >> 8) & 3 != 3 else v ^ 0x200),
    # ---- word sanity: the three ITS modes ----------------------------------------------------------------------
    # the first IHW of an HBF is in a single-successor state (E30); an IHW of a later page follows a completed packet (choice state: E990/E992)
    word_fault("IHW identifier", "IHW", with_id(lambda rng: rng.choice([0xE1, 0x00, 0xFF, 0x2F])), {"30", "990", "992"}, ITS3),
    word_fault("IHW reserved bit", "IHW", setbit(list(range(28, 72))), {"30"}, ITS3),
    word_fault("TDH identifier (after IHW)", "TDH", with_id(lambda rng: rng.choice([0xE9, 0x00, 0xE0, 0xF0])), {"40"}, ITS3),
    word_fault("TDH reserved bit", "TDH", setbit([15, 28, 29, 30, 31] + list(range(64, 72))), {"40"}, ITS3, which=-1),
    word_fault("TDH without trigger", "TDH", tdh_mod(trigger_type=0, internal=0), {"40"}, ITS3, which=-1,
               wpred=lambda w: not (w[1] & 0x60)),
    word_fault("TDT identifier", "TDT", with_id(lambda rng: rng.choice([0xF1, 0x00, 0x7F, 0x70])), {"991", "70"}, ITS3),
    word_fault("TDT reserved bit", "TDT", setbit([56, 57, 58, 59, 60, 66, 68, 69, 70, 71]), {"50"}, ITS3, which=-1),
    word_fault("DDW0 identifier", "DDW", with_id(lambda rng: rng.choice([0xE5, 0x00, 0xEF, 0xF4])), {"990", "992"}, ITS3),
    word_fault("DDW0 reserved bit", "DDW", setbit([56, 57, 60, 63, 64, 66]), {"60"}, ITS3),
    word_fault("DDW0 index not 0", "DDW", setbit([68, 69, 70, 71]), {"60"}, ITS3),
    # a data word with an invalid identifier: the documented data-word sanity error [E70] (the unrecognised-ID [E991] alone is not the documented family)
    word_fault("data word identifier", "DATA", with_id(lambda rng: rng.choice([0x00, 0x1F, 0x60, 0x7F, 0xFF])), {"70"}, ITS3, which=-1),
    word_fault("data word identifier with an inner/outer barrel prefix", "DATA", with_id(lambda rng: rng.choice([0x29, 0x2C, 0x2F, 0x3F, 0x47, 0x4F, 0x57, 0x5F])), {"70"}, ITS3, which=-1),
    f_ob_input7(),
    f_padding(),
    # ---- state dependent ITS rules: running, ITS ------------------------------------------------------------------
    f_stop_page("DDW0 in a packet with stop bit 0", "stop_bit", 0, ["110"]),
    f_stop_page("DDW0 on page 0", "pages_counter", 0, ["111"]),
    f_ihw_stop(),
    word_fault("continuation TDH without the continuation bit", "TDH", tdh_mod(cont=0), {"41"}, RUNITS, True, wpred=is_cont),
    word_fault("continuation bit on a TDH that starts a packet", "TDH", tdh_mod(cont=1), {"42"}, RUNITS, True, wpred=not_cont),
    # the same rule at each of the places where a packet can start
    word_fault("continuation bit on the first TDH of page 0", "TDH", tdh_mod(cont=1), {"42"}, RUNITS, True, wpred=not_cont, ppred=first_tdh_page0),
    word_fault("continuation bit on the first TDH of a page > 0", "TDH", tdh_mod(cont=1), {"42"}, RUNITS, True, wpred=not_cont,
               ppred=lambda s, l, i, p: p.f["pages_counter"] > 0 and len(p.words) > 1 and p.words[1][0] == "TDH" and not_cont(p.words[1][1])),
    Fault("continuation bit on a TDH that follows a completed packet in the same page", {"42"}, RUNITS, True, lambda s, rng, pos: _tdh_after(s, rng, pos, "TDT")),
    Fault("continuation bit on a TDH that follows a no-data TDH", {"42"}, RUNITS, True, lambda s, rng, pos: _tdh_after(s, rng, pos, "TDH")),
    word_fault("continuation TDH with another bc", "TDH", tdh_mod(bc=lambda v, rng: (v + 1) % 0xDEC), {"441"}, RUNITS, True, wpred=is_cont),
    word_fault("continuation TDH with another orbit", "TDH", tdh_mod(orbit=lambda v, rng: v ^ 1), {"442"}, RUNITS, True, wpred=is_cont),
    word_fault("continuation TDH with another trigger type", "TDH", tdh_mod(trigger_type=lambda v, rng: v ^ 0x4), {"443"}, RUNITS, True, wpred=is_cont),
    word_fault("TDH orbit differs from the RDH orbit", "TDH", tdh_mod(orbit=lambda v, rng: (v + 1) & 0xFFFFFFFF), {"444"}, RUNITS, True, wpred=not_cont,
               ppred=lambda s, l, i, p: len(p.words) > 1 and p.words[1][0] == "TDH" and not_cont(p.words[1][1])),  # rule applies to the first TDH of a page
    word_fault("first TDH bc differs from the RDH bc", "TDH", tdh_mod(bc=lambda v, rng: (v + 1) % 0xDEC), {"445"}, RUNITS, True, wpred=not_cont,
               ppred=first_tdh_page0),
    word_fault("first TDH trigger type differs from the RDH's", "TDH", tdh_mod(trigger_type=lambda v, rng: v ^ 0x8), {"44"}, RUNITS, True, wpred=not_cont,
               ppred=first_tdh_page0),
    f_tdh_bc_decreasing(),
    f_lane_inactive(),
    f_cdw_index(),
]


def locate(s, target):
    if target[0] == "rdh":
        return s.pkts[target[1]][target[2]].offset
    p = s.pkts[target[1]][target[2]]
    return p.word_offsets[target[3]]


def make_base(rng, fault_idx, big=False):
    """a conforming stream rich enough for the fault"""
    kw = dict(hbfs=rng.choice([2, 3, 4]), max_pages=rng.choice([2, 3]), n_links=rng.choice([1, 2, 3, 4]), hits=rng.choice(["few", "some"]),
              superset_lanes=False, max_triggers=rng.choice([2, 4]))
    name = CATALOGUE[fault_idx].name
    if "continuation" in name:
        kw.update(p_split=0.7)
    if "page > 0" in name:
        kw.update(p_split=0.0, max_pages=4, max_triggers=8, p_nodata=0.2)
    if "follows a completed packet" in name:
        kw.update(p_split=0.0, max_pages=1, max_triggers=8, p_nodata=0.0)
    if "follows a no-data TDH" in name:
        kw.update(p_split=0.0, max_pages=1, max_triggers=8, p_nodata=0.6)
    if "CDW" in name:
        kw.update(p_cdw=1.0, p_nodata=0.0, hbfs=4)
    if "decreasing" in name:
        kw.update(max_triggers=8, p_nodata=0.0, max_pages=1)
    if "outer barrel" in name:
        kw.update(barrels=[rng.choice(["ML", "OL"])])
    if "padding" in name or "data format" in name:
        kw.update(fmt=2)
    if "first TDH" in name:
        kw.update(mode=rng.choice(["internal", "pht"]))
    if big:
        kw.update(n_links=1, hbfs=300, max_pages=kw.get("max_pages", rng.choice([2, 3])))
    return gen.generate(rng.getrandbits(40), **kw)


def one_case(args):
    exe, wd, seed, case, tier, fi, pos = args
    rng = rng_for(seed, case)
    fault = CATALOGUE[fi]
    out = dict(case=case, viol=None, fault=fault.name, fired=0, runs=0, applied=False, sample=None)
    info = None
    for attempt in range(12):
        s = make_base(rng, fi, big=(pos == "p256"))
        try:
            info = fault.apply(s, rng, pos)
        except KeyError:
            info = None          # entry with its own position table: the scale position does not apply to it
        if info:
            break
    if not info:
        return out
    out["applied"] = True
    data = s.serialize()
    off = locate(s, info["target"])
    path = os.path.join(wd, "c%d.raw" % case)
    write_file(path, data)
    N = rng.choice([1, 2, 7, 123, 255])
    out["sample"] = "%s @ %s (link %d of %d, offset 0x%X): %s" % (fault.name, pos, info["target"][1], len(s.links), off, info["what"])
    try:
        for mode in ALL5:
            active = mode in fault.modes
            silent_required = fault.stateful and mode in ("sanity", "sanity_its")
            if not active and not silent_required:
                continue
            argv = [path] + obs.MODES[mode] + ["-E", str(N)]
            if pos == "last":
                argv += ["-v", "0"]          # detection may not depend on the log level
            if pos == "middle":
                # configuration dimension: a custom-checks file that states the true RDH version must not switch off any other check
                tp = os.path.join(wd, "c%d.checks.toml" % case)
                write_file(tp, "# true value, written by the C02 monitor\nrdh_version = %d\n" % s.version)
                argv += ["-c", tp]
            r = obs.run(exe, argv, workdir=wd, stats="json", tag="c%d" % case)
            out["runs"] += 1
            what = None
            ab = r.abnormal(allowed_rc=(0, 1, N))
            if ab:
                what = "abnormal end: %s" % ab
            elif r.stats is None:
                what = "no statistics file"
            elif active:
                def hit(msgs):
                    for m in msgs:
                        if m.offset == off and ((m.code in fault.codes) if fault.codes else (info.get("text", "") in m.text)):
                            return True
                    return False
                if not hit(r.reported()):
                    what = "not detected: no [E%s] message at 0x%X in the statistics file (messages at that offset: %s)" % (
                        "/E".join(sorted(fault.codes)) or info.get("text"), off, [m.text[:70] for m in r.reported() if m.offset == off][:3])
                elif not hit(r.displayed_errors()):
                    what = "not shown: detected in the statistics file but not displayed on stderr at 0x%X" % off
                elif r.rc != N:
                    what = "exit status %s, configured any-errors status is %d" % (r.rc, N)
                else:
                    out["fired"] += 1
            else:
                if r.total_errors() != 0 or r.displayed_errors() or r.rc != 0:
                    what = "purely stateful violation reported by check %s: %s" % (mode, (r.reported() or [None])[0])
                else:
                    out["fired"] += 1
            if what:
                d = save_replay("C02", "case%d_%s" % (case, mode), {"input.raw": data, "stderr.txt": r.stderr, "stats.json": r.stats_raw or b""},
                                dict(seed=seed, case=case, argv=argv, fault=fault.name, position=pos, mutation=info["what"], offset=hex(off), what=what))
                out["viol"] = ("fault:%s:%s:%s" % (fault.name, mode, what.split(":")[0]), "%s in check %s: %s" % (out["sample"], mode, what), d)
                break
    finally:
        os.unlink(path)
        if os.path.exists(os.path.join(wd, "c%d.checks.toml" % case)):
            os.unlink(os.path.join(wd, "c%d.checks.toml" % case))
    return out


def run(res):
    exe = build.fastpasta("rel")
    wd = scratch("c02")
    reps = 1 if res.tier == "quick" else 60
    jobs = []
    c = 0
    for rep in range(reps):
        for fi in range(len(CATALOGUE)):
            for pos in ("first", "middle", "last", "p256"):
                jobs.append((exe, wd, res.seed, c, res.tier, fi, pos))
                c += 1
    per = {}
    for o in pmap(one_case, jobs):
        res.evaluations += o["runs"]
        if o["viol"]:
            res.violation(*o["viol"])
        st = per.setdefault(o["fault"], dict(applied=0, fired=0))
        st["applied"] += int(o["applied"])
        st["fired"] += o["fired"]
        if o["fired"]:
            res.nontrivial.add((o["fault"], o["case"]))
        if o["sample"]:
            res.sample(o["sample"], cap=8)
    never = [f.name for f in CATALOGUE if per.get(f.name, {}).get("applied", 0) == 0]
    res.extra.update(catalogue_entries=len(CATALOGUE), per_entry=per, entries_never_applicable=never)
    if never:
        res.inconclusive.append("catalogue entries that could not be applied to any generated stream: %s" % never)
    res.rule = ("%d catalogue entries (DESIGN.md §3 C02) x {first, middle, last, index 256k of a > 600-packet link} applicable position on a random link of a fresh conforming stream x the modes where the rule is "
                "documented active (+ sanity modes for purely stateful faults), -E N with N in {1,2,7,123,255}; non-trivial = a distinct (entry, stream) whose "
                "expected (code, offset, exit) was observed" % len(CATALOGUE))
    res.min_nontrivial = int(0.8 * len(jobs) * 0.6)
    res.assumptions = ["RDH0 faults are not placed on the very first RDH of the input (the start-up gate would reject the whole input)",
                       "existence oracle: >= 1 message of the family at the offset; cascades are ignored"]
