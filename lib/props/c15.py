"""C15 - statistics files round-trip and detect any drift.

(i) a statistics file written by a run is accepted, without any mismatch, by a second run on the same input with the same options (-i);
(ii) every leaf of the file that the run also collects, perturbed one at a time, must be reported as a mismatch and give the any-errors exit status;
(iii) a changed input with the old file must be reported whenever the new run's own statistics differ from the file."""
import os, json, copy, tomllib
import build, obs, gen, mutate, its, rdh as R
from common import pmap, scratch, rng_for, save_replay, write_file

LEVEL = "fault_enumeration"


def toml_dump(d):
    out = []

    def val(v):
        if isinstance(v, bool):
            return "true" if v else "false"
        if isinstance(v, int):
            return str(v)
        if isinstance(v, str):
            return json.dumps(v, ensure_ascii=True)
        if isinstance(v, list):
            return "[" + ", ".join(val(x) for x in v) + "]"
        raise ValueError(v)

    def table(t, prefix):
        subs = []
        for k, v in t.items():
            if isinstance(v, dict):
                subs.append((k, v))
            elif v is not None:
                out.append("%s = %s" % (k, val(v)))
        for k, v in subs:
            out.append("")
            out.append("[%s]" % (prefix + k))
            table(v, prefix + k + ".")
    table(d, "")
    return "\n".join(out) + "\n"


def leaves(d, path=()):
    for k, v in d.items():
        if isinstance(v, dict):
            yield from leaves(v, path + (k,))
        else:
            yield path + (k,), v


REMOVE = "__remove_this_leaf__"
OPTIONAL_LEAVES = ("data_format", "rdh_version", "system_id", "run_trigger_type")      # recorded once per run; absent in a file = "never recorded"


def perturb(rng, path, v):
    """list of (description, new value) that keep the file well-typed"""
    name = path[-1]
    res = []
    if isinstance(v, bool):
        return res
    if name in OPTIONAL_LEAVES and v is not None:
        res.append(("removed", REMOVE))
    if isinstance(v, int):
        small = name in ("rdh_version", "data_format")
        res.append(("+1", v + 1 if not (small and v >= 255) else v - 1))
        if v > 0:
            res.append(("-1", v - 1))
    elif isinstance(v, str):
        if name == "system_id":
            res.append(("other system", "TPC" if v != "TPC" else "ITS"))
        else:
            res.append(("edited", v + "x"))
    elif isinstance(v, list):
        if name == "run_trigger_type":
            res.append(("raw+1", [v[0] ^ 1, v[1]]))
            res.append(("text", [v[0], "Other" if v[1] != "Other" else "HB   "]))
            return res
        if v:
            res.append(("element removed", v[:-1]))
            e = v[0]
            if isinstance(e, str):
                res.append(("element edited", [e + " "] + v[1:]))
                res.append(("element added", v + [e]))
            elif isinstance(e, int):
                res.append(("element changed", [e ^ 1] + v[1:]))
                res.append(("element added", v + [(max(v) + 1) & 0xFF if name == "links" else (max(v) + 1) & 0xFFFF]))
            elif isinstance(e, list):
                res.append(("element changed", [[e[0], e[1] ^ 1]] + v[1:]))
            if len(v) > 1 and v[0] != v[1]:
                res.append(("reordered", [v[1], v[0]] + v[2:]))
        else:
            res.append(("element added", ["0x0: [E10] x"] if name in ("reported_errors", "custom_checks_stats_errors") else
                        (["10"] if name == "unique_error_codes" else ([[0, 1]] if name in ("layer_staves_seen", "staves_with_errors") else [1]))))
    elif v is None:
        if name == "fatal_error":
            res.append(("set", "fatal"))
    return res


def set_path(d, path, v):
    for k in path[:-1]:
        d = d[k]
    if v is None or v == REMOVE:
        d.pop(path[-1], None)
    else:
        d[path[-1]] = v


def one_case(args):
    exe, wd, seed, case, tier = args
    rng = rng_for(seed, case)
    out = dict(case=case, viol=None, runs=0, leaves=0, roundtrips=0, drift_detected=0, key=None, sample=None)
    cls = rng.choice(["clean", "errors", "errors", "multi"])
    s = gen.generate(rng.getrandbits(40), n_links=rng.choice([1, 2, 4]) if cls != "multi" else rng.choice([6, 12]), hbfs=rng.choice([1, 2]))
    if cls != "clean":
        for _ in range(rng.choice([1, 3, 8])):
            mutate.mutate_once(rng, s, allow=("rdh", "word", "word", "pad"))
        for lp in s.pkts:
            for p in lp:
                p.f["system_id"] = 32
                p.f.pop("header_size", None)
    mutate.remerge(rng, s)
    data = s.serialize()
    path = os.path.join(wd, "c%d.raw" % case)
    write_file(path, data)
    # the comparison is a property of every run that collects statistics: check modes, and also views / filtered data to stdout
    mode = ["sanity", "all", "all_its", "all_its_stave", "all_its_stave", "view rdh", "view its-readout-frames", "writer"][case % 8]
    fmt = rng.choice(["json", "toml"])
    opts = rng.choice([[], [], ["-m"]])
    N = rng.choice([3, 42, 200])
    margs = obs.MODES[mode] if mode in obs.MODES else (mode.split() if mode != "writer" else ["-f", str(s.links[0].link_id)])
    base = [path] + margs + opts + ["-E", str(N)]
    desc = "%s input (%d packets, %d links), check %s %s, %s" % (cls, len(s.all_packets()), len(s.links), mode, opts, fmt)
    out["sample"] = desc
    files = {"input.raw": data}

    def bad(what, r=None, sfile=None):
        if r is not None:
            files["stderr.txt"] = r.stderr
        if sfile is not None:
            files["stats_in." + fmt] = sfile
        d = save_replay("C15", "case%d" % case, files, dict(seed=seed, case=case, argv=base, what=what, desc=desc))
        out["viol"] = ("stats-file:%s" % what.split(":")[0], "%s: %s" % (desc, what), d)
        return out
    try:
        # half of the runs write to a path that already holds a longer statistics file of an earlier run
        old_file = (json.dumps({"is_finalized": True, "note": "x" * 40000}).encode() if fmt == "json" else ("note = \"%s\"\n" % ("x" * 40000)).encode()) if case % 2 == 0 else None
        a = obs.run(exe, base, workdir=wd, stats=fmt, tag="c%da" % case, prefill_stats=old_file)
        out["runs"] += 1
        if a.rc == 1 and "Init processing failed" in a.stderr:
            return out      # a mutation hit the first RDH0: unrecognised input, not part of this workload
        if a.abnormal(allowed_rc=(0, N)) or a.stats is None:
            if a.stats is None and a.stats_raw is not None and not a.abnormal(allowed_rc=(0, N)):
                return bad("unparsable: the statistics file written%s cannot be parsed (%d bytes)" % (" over an existing longer file" if old_file else "", len(a.stats_raw)), a, a.stats_raw[:3000])
            return bad("abnormal end of the writing run: %s" % a.abnormal(allowed_rc=(0, N)), a)
        if a.stats["error_stats"].get("fatal_error"):
            return out
        sp = os.path.join(wd, "c%d_in.%s" % (case, fmt))
        write_file(sp, a.stats_raw)
        b = obs.run(exe, base + ["-i", sp], workdir=wd, stats=fmt, tag="c%db" % case)
        out["runs"] += 1
        out["roundtrips"] += 1
        if b.abnormal(allowed_rc=(0, N)):
            return bad("abnormal end of the comparing run: %s" % b.abnormal(allowed_rc=(0, N)), b, a.stats_raw)
        if "mismatch!" in b.stderr or "did not match" in b.stderr:
            line = [l for l in b.stderr.split("\n") if "mismatch!" in l or "did not match" in l][0]
            return bad("round trip: the file written by the run is not accepted by a second identical run: %s" % obs.strip_ansi(line)[:200], b, a.stats_raw)
        if b.rc != a.rc:
            return bad("round trip: exit status %s with the own statistics file, %s without" % (b.rc, a.rc), b, a.stats_raw)
        if b.stats_raw != a.stats_raw:
            return bad("round trip: the second run writes a different statistics file", b, a.stats_raw)
        # (ii) leaf by leaf drift
        collected_alpide = mode == "all_its_stave"
        todo = []
        for pth, v in leaves(a.stats):
            if pth[0] == "is_finalized" or (pth[0] == "alpide_stats" and not collected_alpide):
                continue
            for what, nv in perturb(rng, pth, v):
                todo.append((pth, what, nv))
        if "fatal_error" not in a.stats["error_stats"]:   # TOML has no null
            todo.append((("error_stats", "fatal_error"), "set", "fatal"))
        if tier == "quick" and len(todo) > 40:
            must = [t for t in todo if t[1] == "removed"]
            todo = must + rng.sample([t for t in todo if t[1] != "removed"], 40 - len(must))
        for pth, what, nv in todo:
            st = copy.deepcopy(a.stats)
            set_path(st, pth, nv)
            raw = (json.dumps(st, indent=1) if fmt == "json" else toml_dump(st)).encode()
            write_file(sp, raw)
            r = obs.run(exe, base + ["-i", sp], workdir=wd, tag="c%dd" % case)
            out["runs"] += 1
            out["leaves"] += 1
            if r.sig is not None or r.panicked():
                return bad("drift %s %s: comparing run crashed (signal %s)" % (".".join(pth), what, r.sig), r, raw)
            detected = ("did not match" in r.stderr) and (("mismatch!" in r.stderr) or "-m" in opts)
            if not detected:
                return bad("drift undetected: %s %s (-> %r) is accepted without a mismatch" % (".".join(pth), what, nv if not isinstance(nv, list) else nv[:3]), r, raw)
            if r.rc != N:
                return bad("drift exit: %s changed, mismatch reported but exit status %s instead of %d" % (".".join(pth), r.rc, N), r, raw)
            out["drift_detected"] += 1
        # (iii) changed input, old file
        write_file(sp, a.stats_raw)
        t = s.copy()
        for _ in range(10):
            m = mutate.mutate_once(rng, t, allow=("rdh",))
            if m != "noop" and "system_id" not in m and "header_size" not in m and "header_id" not in m:
                break
        d2 = t.serialize()
        p2 = os.path.join(wd, "c%d_2.raw" % case)
        write_file(p2, d2)
        args2 = [p2] + margs + opts + ["-E", str(N)]
        own = obs.run(exe, args2, workdir=wd, stats=fmt, tag="c%de" % case)
        old = obs.run(exe, args2 + ["-i", sp], workdir=wd, tag="c%df" % case)
        os.unlink(p2)
        out["runs"] += 2
        if own.stats is not None and not own.abnormal(allowed_rc=(0, N)) and not old.abnormal(allowed_rc=(0, N)):
            o1 = {k: v for k, v in own.stats.items() if k != "is_finalized"}
            o0 = {k: v for k, v in a.stats.items() if k != "is_finalized"}
            differs = o1 != o0
            reported = "did not match" in old.stderr
            if differs != reported:
                files["changed_input.raw"] = d2
                return bad("changed input: %s; statistics of the changed input %s the old file, mismatch %s" % (m, "differ from" if differs else "equal", "reported" if reported else "not reported"), old, a.stats_raw)
            if differs and old.rc != N:
                return bad("changed input exit: mismatch reported but exit status %s" % old.rc, old, a.stats_raw)
        os.unlink(sp)
    finally:
        if os.path.exists(path):
            os.unlink(path)
    out["key"] = (cls, mode, fmt, tuple(opts))
    return out


def storm_case(args):
    """scale: a statistics file with more than 100 000 error messages from four links (tens of MB): it still round-trips, in both formats, and drift of
    one late message or of the total is still detected"""
    import frame, json as _json
    exe, wd, seed, case, tier = args
    rng = rng_for(seed, 800000 + case)
    out = dict(case=case, viol=None, runs=0, roundtrips=0, leaves=0, drift_detected=0, key=None, sample=None)
    nl, per = 4, 30000
    fp = frame.generate(rng, nl * per, payload="none", sane_headers=True)
    for i, q in enumerate(fp):
        q.f["system_id"] = 32
        q.f["link_id"] = i % nl
        q.f["fee_id"] = 0x1000 * (i % nl) + 3
        q.f["stop_bit"] = 2
    path = os.path.join(wd, "s%d.raw" % case)
    write_file(path, frame.serialize(fp))
    fmt = ["json", "toml"][case % 2]
    N = 9
    argv = [path, "check", ["sanity", "all"][(case // 2) % 2], "-m", "-E", str(N)]
    out["sample"] = "storm: %d RDHs with errors on %d links, %s, %s" % (nl * per, nl, " ".join(argv[1:3]), fmt)

    def bad(what, r):
        d = save_replay("C15", "storm%d" % case, {"stderr.txt": r.stderr[-20000:]}, dict(seed=seed, case=case, argv=argv, what=what, note="input regenerated from (seed, case): storm_case"))
        out["viol"] = ("stats-file:storm:%s" % what.split(":")[0], "%s: %s" % (out["sample"], what), d)
        return out
    try:
        a = obs.run(exe, argv, workdir=wd, stats=fmt, tag="s%da" % case, timeout=300)
        out["runs"] += 1
        if a.abnormal(allowed_rc=(N,)) or a.stats is None:
            return bad("abnormal end of the writing run: %s" % a.abnormal(allowed_rc=(N,)), a)
        k = a.total_errors()
        if k < 100000:
            return bad("harness: only %d errors" % k, a)
        sp = os.path.join(wd, "s%d_old.%s" % (case, fmt))
        write_file(sp, a.stats_raw)
        b = obs.run(exe, argv + ["-i", sp, "-v", "2"], workdir=wd, tag="s%db" % case, timeout=300)
        out["runs"] += 1
        out["roundtrips"] += 1
        if b.sig is not None or b.panicked() or b.timeout or b.rc not in (N,):
            return bad("round trip: second run ended abnormally: %s" % b.abnormal(allowed_rc=(N,)), b)
        if "did not match" in b.stderr or "mismatch" in b.stderr.lower().replace("mismatching", ""):
            return bad("round trip: the file written by the identical run (%d errors, %d bytes) is reported as a mismatch" % (k, len(a.stats_raw)), b)
        if fmt == "json":
            st = _json.loads(a.stats_raw)
            msgs = st["error_stats"]["reported_errors"]
            msgs[-5] = msgs[-5].replace("[E1", "[E9", 1) if "[E1" in msgs[-5] else msgs[-5] + " x"
            write_file(sp, _json.dumps(st).encode())
            c = obs.run(exe, argv + ["-i", sp, "-v", "2"], workdir=wd, tag="s%dc" % case, timeout=300)
            out["runs"] += 1
            out["leaves"] += 1
            if c.sig is not None or c.panicked() or c.timeout:
                return bad("drift: abnormal end %s" % c.abnormal(allowed_rc=(N,)), c)
            if "did not match" not in c.stderr:
                return bad("drift undetected: one changed message near the end of %d messages is accepted" % len(msgs), c)
            out["drift_detected"] += 1
        out["key"] = ("storm", fmt, argv[2])
    finally:
        for f in (path, os.path.join(wd, "s%d_old.%s" % (case, fmt))):
            if os.path.exists(f):
                os.unlink(f)
    return out


def run(res):
    exe = build.fastpasta("rel")
    wd = scratch("c15")
    n = 14 if res.tier == "quick" else 600
    outs = pmap(one_case, [(exe, wd, res.seed, c, res.tier) for c in range(n)])
    outs += pmap(storm_case, [(exe, wd, res.seed, c, res.tier) for c in range(2 if res.tier == "quick" else 8)], workers=4)
    for o in outs:
        res.evaluations += o["runs"]
        res.count("round_trips", o["roundtrips"])
        res.count("leaf_perturbations", o["leaves"])
        res.count("drifts_detected", o["drift_detected"])
        if o["viol"]:
            res.violation(*o["viol"])
        if o["key"] and o["drift_detected"]:
            res.nontrivial.add(o["key"])
        if o["sample"]:
            res.sample(o["sample"])
    res.rule = ("inputs {clean, erroneous with multi-line / tab / bracket messages, multi-link} x check modes x {JSON, TOML} x {-, -m}: round trip, then every leaf of rdh_stats / error_stats "
                "(/ alpide_stats in stave mode) perturbed one at a time (quick: 40 sampled perturbations per file, thorough: all), then a changed input with the old file; plus storm cases (> 100 000 messages from 4 links, files of tens of MB: round trip and drift of a late message); "
                "non-trivial = distinct (input class, mode, format, options) with >= 1 detected drift")
    res.min_nontrivial = 6 if res.tier == "quick" else 25
    res.assumptions = ["perturbed files stay well-typed (a malformed statistics file is not a well-formed configuration)", "is_finalized is not a statistic"]
