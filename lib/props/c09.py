"""C09 - ITS payload words are classified as the documented state machine says.

Oracle: table transcription of doc/ITS_payload_fsm_continuous_mode.puml (+ CDW in data states) inside the
in-process driver; observed: classification returned by the real FSM, its state id (hook H3) after every word,
and the error codes the real CdpRunningValidator emits at that word."""
import inproc
from common import pmap

LEVEL = "exploration"


def run(res):
    quick = res.tier == "quick"
    shards = 2 if quick else 16
    per = 500_000 if quick else 40_000_000
    outs = pmap(lambda i: inproc.check(res, "fsm", ["--seed", res.seed * 1000 + i, "--random", per], "fsm", "FSM product / random histories"), range(shards))
    outs = [o for o in outs if o]
    if not outs:
        return
    o = outs[0]
    res.evaluations = sum(x["legal_steps"] + x["illegal_state_word_pairs"] + x["random_steps"] for x in outs)
    # distinct non-trivial: distinct (state pair, word class) transitions of the exhaustive closure
    for k in range(o["transitions"]):
        res.nontrivial.add(("t", k))
    res.exhaustive = True
    res.extra.update(product_pairs=o["product_pairs"], diagram_states_reached=o["model_states"],
                     implementation_states_reached=o["impl_states"], alphabet=o["alphabet"],
                     transitions_taken=o["transitions"], illegal_state_word_pairs_checked=o["illegal_state_word_pairs"],
                     random_words=sum(x["random_steps"] for x in outs),
                     random_illegal_words=sum(x["random_illegal"] for x in outs),
                     random_distinct_transitions=max(x["random_transitions"] for x in outs),
                     fsm_resets=sum(x["resets"] for x in outs))
    res.rule = ("breadth-first closure of (implementation state id, diagram state) pairs from reset by replaying word paths over a "
                "%d-class alphabet (exhaustive for that alphabet), then random histories; non-trivial = a distinct "
                "(pair, word class) transition of the closure" % o["alphabet"])
    res.samples = o["pairs"].split(" ")[:12]
    res.min_nontrivial = 150
    if o["model_states"] < 10 or o["impl_states"] < 11:
        res.inconclusive.append("product closure reached only %d diagram / %d implementation states" % (o["model_states"], o["impl_states"]))
        res.nontrivial.clear()
    res.assumptions = [
        "diagram transcription: 10 states; CDW legal in data states (doc/checks_list.md)",
        "TDT directly after a TDH that announces data is a documented ambiguity (the diagram draws a Data box first): either accepted as TDT or reported is allowed",
        "successor after an illegal identifier is the implementation's choice (the property only demands the report)",
    ]
