"""Reference models of the documented RDH rules (doc/checks_list.md; bc <= 0xdeb and detector-field bits 23:12, see DESIGN.md §1)."""


def rdh_sanity_ok(f, first_header_id, its):
    fee = f["fee_id"]
    return (f["header_id"] == first_header_id and f["header_size"] == 0x40 and fee & 0x8CC0 == 0 and (fee & 0x3F) <= 47 and ((fee >> 12) & 7) <= 6
            and f["priority_bit"] == 0 and (not its or f["system_id"] == 32) and f["rdh0_reserved"] == 0 and f["rdh1_reserved"] == 0 and f["bc"] <= 0xDEB
            and f["rdh2_reserved"] == 0 and f["stop_bit"] <= 1 and f["trigger_type"] != 0 and f["trigger_type"] & 0x07FF8000 == 0
            and f["rdh3_reserved"] == 0 and f["detector_field"] & 0x00FFF000 == 0 and f["dw"] <= 1 and f["data_format"] <= 2)


class RdhRunning:
    def __init__(self):
        self.n, self.expect, self.incr, self.last = 0, 0, 1, None

    def ok(self, f):
        self.n += 1
        if self.n == 2:
            self.incr = f["pages_counter"]
        good = True
        if f["stop_bit"] == 0:
            good &= f["pages_counter"] == self.expect
            self.expect = (self.expect + self.incr) & 0xFFFF
        elif f["stop_bit"] == 1:
            good &= f["pages_counter"] == self.expect
            self.expect = 0
        else:
            good = False
        l = self.last
        if l is not None:
            if l["stop_bit"] == 1 and l["orbit"] == f["orbit"]:
                good = False
            if f["pages_counter"] != 0 and (f["orbit"] != l["orbit"] or f["trigger_type"] != l["trigger_type"] or f["fee_id"] != l["fee_id"]):
                good = False
        self.last = f
        return good
