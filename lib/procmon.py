"""Process monitor for early-stop scenarios: chunked feeding of stdin, signals at logical instants, early close of stdout,
logical no-progress detection via /proc (no wall-clock verdicts)."""
import os, subprocess, threading, time, signal


def cpu_ticks(pid):
    try:
        with open("/proc/%d/stat" % pid) as f:
            parts = f.read().rsplit(")", 1)[1].split()
        return int(parts[11]) + int(parts[12])
    except Exception:
        return None


def thread_states(pid):
    st = []
    try:
        for t in os.listdir("/proc/%d/task" % pid):
            with open("/proc/%d/task/%s/stat" % (pid, t)) as f:
                st.append(f.read().rsplit(")", 1)[1].split()[0])
    except Exception:
        pass
    return st


class Outcome:
    def __init__(self):
        self.rc = self.sig = None
        self.stdout = b""
        self.stderr = ""
        self.hung = False
        self.inconclusive = None
        self.wall = 0.0
        self.fed = 0
        self.signalled = False
        self.cpu_exceeded = None     # CPU seconds consumed when the CPU-time bound was exceeded

    def panicked(self):
        s = self.stderr
        return ("panicked at" in s) or ("Well, this is embarrassing" in s) or ("had a problem and crashed" in s)


def run(argv, env=None, cwd=None, stdin_data=None, chunk=65536, signal_after_chunk=None, signum=signal.SIGINT, close_stdout_after=None,
        signal_after_stdout=None, watchdog=60.0, hard=150.0, cpu_limit=None, pause=None):
    """signal_after_chunk: send signum after that many chunks were written to stdin (logical instant);
    signal_after_stdout: send signum after that many bytes of stdout were read; close_stdout_after: close our end of stdout after n bytes;
    pause=(k, seconds): the producer of the pipe goes quiet for that long before it writes chunk k (after the signal, if that is due at k too), or
    before it closes the pipe if k >= number of chunks: an upstream that neither delivers nor closes for a while."""
    o = Outcome()
    t0 = time.time()
    p = subprocess.Popen(argv, stdin=subprocess.PIPE if stdin_data is not None else subprocess.DEVNULL, stdout=subprocess.PIPE, stderr=subprocess.PIPE,
                         env=env, cwd=cwd)
    state = dict(sent=False)

    def handler_installed():
        try:
            with open("/proc/%d/status" % p.pid) as f:
                for line in f:
                    if line.startswith("SigCgt:"):
                        return bool(int(line.split()[1], 16) >> (int(signum) - 1) & 1)
        except Exception:
            pass
        return False

    def send_sig():
        if not state["sent"]:
            state["sent"] = True
            # stop handling is in force once the tool has installed its handler: wait (bounded) for that logical instant, so that a signal
            # in the first milliseconds of start-up (default disposition: any process dies) is not mistaken for a failure of the stop handling
            t_end = time.time() + 5.0
            while time.time() < t_end and p.poll() is None and not handler_installed():
                time.sleep(0.002)
            o.signalled = True
            try:
                p.send_signal(signum)
            except Exception:
                pass

    def feeder():
        try:
            n = 0
            for i in range(0, len(stdin_data), chunk):
                if signal_after_chunk is not None and n == signal_after_chunk:
                    send_sig()
                if pause is not None and n == pause[0]:
                    time.sleep(pause[1])
                p.stdin.write(stdin_data[i:i + chunk])
                p.stdin.flush()
                n += 1
                o.fed = n
            if signal_after_chunk is not None and n <= signal_after_chunk:
                send_sig()
            if pause is not None and n <= pause[0]:
                time.sleep(pause[1])
        except (BrokenPipeError, OSError, ValueError):
            pass
        finally:
            try:
                p.stdin.close()
            except Exception:
                pass

    def reader():
        buf = bytearray()
        try:
            while True:
                want = 65536
                if close_stdout_after is not None:
                    want = min(want, max(0, close_stdout_after - len(buf)))
                    if want == 0:
                        break
                b = p.stdout.read1(want) if hasattr(p.stdout, "read1") else p.stdout.read(want)
                if not b:
                    break
                buf += b
                if signal_after_stdout is not None and len(buf) >= signal_after_stdout:
                    send_sig()
        except Exception:
            pass
        finally:
            try:
                p.stdout.close()
            except Exception:
                pass
            o.stdout = bytes(buf)

    def errreader():
        try:
            o.stderr = p.stderr.read().decode("utf-8", "replace")
        except Exception:
            pass
    threads = [threading.Thread(target=reader, daemon=True), threading.Thread(target=errreader, daemon=True)]
    if stdin_data is not None:
        threads.append(threading.Thread(target=feeder, daemon=True))
    for t in threads:
        t.start()
    if signal_after_chunk is None and signal_after_stdout is None and signum and stdin_data is None and close_stdout_after is None:
        pass
    deadline = t0 + watchdog
    while True:
        try:
            p.wait(timeout=0.05)
            break
        except subprocess.TimeoutExpired:
            pass
        now = time.time()
        if cpu_limit is not None:
            c = cpu_ticks(p.pid)
            if c is not None and c / os.sysconf("SC_CLK_TCK") > cpu_limit:
                o.cpu_exceeded = c / os.sysconf("SC_CLK_TCK")
                p.kill()
                p.wait()
                break
        if now > deadline:
            # logical no-progress inspection
            c1 = cpu_ticks(p.pid)
            time.sleep(2.0)
            if p.poll() is not None:
                break
            c2 = cpu_ticks(p.pid)
            states = thread_states(p.pid)
            if c1 is not None and c2 is not None and c1 == c2 and states and all(s in ("S", "D", "I") for s in states):
                o.hung = True
                o.inconclusive = None
                p.kill()
                p.wait()
                break
            if now > t0 + hard:
                o.inconclusive = "still consuming CPU after %.0f s (threads %s)" % (hard, states)
                p.kill()
                p.wait()
                break
            deadline = now + 10.0
    for t in threads:
        t.join(timeout=5)
    rc = p.returncode
    if rc is not None and rc < 0:
        o.sig = -rc
    else:
        o.rc = rc
    o.wall = time.time() - t0
    return o
