"""Known findings: /verif/KNOWN_FINDINGS.txt (committed, never written at run time).

  finding: property=<id> sig=<signature> <what fails>
  fixed: property=<id> <commit> <what failed>

A `finding` suppresses only violations whose signature equals <signature>. `fixed` lines suppress nothing."""
import os, re
from common import VERIF

PATH = os.path.join(VERIF, "KNOWN_FINDINGS.txt")


def load(prop):
    res = {}
    if not os.path.exists(PATH):
        return res
    for line in open(PATH):
        line = line.strip()
        m = re.match(r"^finding:\s+property=(\S+)\s+sig=(\S+)\s+(.*)$", line)
        if m and m.group(1) == prop:
            res[m.group(2)] = m.group(3)
    return res
