"""Builds the artefacts the checks need from /repo's *current working tree* (cargo decides what is stale)."""
import os, subprocess, fcntl, time, shutil
from common import REPO, BUILD, VERIF, log

FAST = ["--config", "profile.release.lto=false", "--config", "profile.release.codegen-units=16"]
_done = {}


class BuildError(Exception):
    pass


def _cargo(args, target_dir, rustflags=None, cwd=REPO, toolchain=None, extra_env=None, what=""):
    env = dict(os.environ)
    env["CARGO_NET_OFFLINE"] = "true"
    env["CARGO_TERM_COLOR"] = "never"
    if rustflags is not None:
        env["RUSTFLAGS"] = rustflags
    else:
        env.pop("RUSTFLAGS", None)
    if extra_env:
        env.update(extra_env)
    cmd = ["cargo"] + ([toolchain] if toolchain else []) + args + ["--target-dir", target_dir]
    os.makedirs(BUILD, exist_ok=True)
    lock = open(os.path.join(BUILD, ".lock-" + os.path.basename(target_dir)), "w")
    fcntl.flock(lock, fcntl.LOCK_EX)
    try:
        t0 = time.time()
        p = subprocess.run(cmd, cwd=cwd, env=env, stdout=subprocess.PIPE, stderr=subprocess.STDOUT, text=True)
        if p.returncode != 0:
            raise BuildError("build failed (%s): %s\n%s" % (what, " ".join(cmd), p.stdout[-4000:]))
        dt = time.time() - t0
        if dt > 3:
            log("[build] %s: %.0fs" % (what, dt))
    finally:
        fcntl.flock(lock, fcntl.LOCK_UN)
        lock.close()


def fastpasta(kind="rel"):
    """kind: rel = hooks on, fast release codegen; ship = hooks on, exact shipped profile (LTO);
    plain = hooks off; asan = AddressSanitizer, tsan = ThreadSanitizer (nightly)."""
    if os.environ.get("VERIF_COVERAGE") and kind in ("rel", "plain", "ship"):
        kind = "cov"  # tools/coverage.py: same sources, hooks on, plus -Cinstrument-coverage (measurement only, never a verdict)
    if kind in _done:
        return _done[kind]
    td = os.path.join(BUILD, kind)
    if kind == "cov":
        _cargo(["build", "--release", "-p", "fastpasta", "--offline"] + FAST, td, "--cfg fastpasta_verif -Cinstrument-coverage", toolchain="+nightly",
               what="fastpasta coverage build")
        exe = os.path.join(td, "release", "fastpasta")
        _done[kind] = exe
        return exe
    if kind == "rel":
        _cargo(["build", "--release", "-p", "fastpasta", "--offline"] + FAST, td, "--cfg fastpasta_verif", what="fastpasta hooks-on")
        exe = os.path.join(td, "release", "fastpasta")
    elif kind == "plain":
        _cargo(["build", "--release", "-p", "fastpasta", "--offline"] + FAST, td, None, what="fastpasta hooks-off")
        exe = os.path.join(td, "release", "fastpasta")
    elif kind == "ship":
        _cargo(["build", "--release", "-p", "fastpasta", "--offline"], td, "--cfg fastpasta_verif", what="fastpasta shipped profile")
        exe = os.path.join(td, "release", "fastpasta")
    elif kind == "tsan":
        # ThreadSanitizer needs an instrumented std: -Zbuild-std (std and panic_abort, the release profile aborts on panic); works offline from rust-src
        _cargo(["build", "--release", "-p", "fastpasta", "--offline", "-Zbuild-std=std,panic_abort", "--target", "x86_64-unknown-linux-gnu"] + FAST, td,
               "--cfg fastpasta_verif -Zsanitizer=thread", toolchain="+nightly", what="fastpasta TSan")
        exe = os.path.join(td, "x86_64-unknown-linux-gnu", "release", "fastpasta")
    elif kind == "asan":
        _cargo(["build", "--release", "-p", "fastpasta", "--offline", "--target", "x86_64-unknown-linux-gnu"] + FAST, td,
               "--cfg fastpasta_verif -Zsanitizer=address -Cforce-frame-pointers=yes", toolchain="+nightly",
               what="fastpasta ASan")
        exe = os.path.join(td, "x86_64-unknown-linux-gnu", "release", "fastpasta")
    else:
        raise ValueError(kind)
    if not os.path.exists(exe):
        raise BuildError("binary missing after build: " + exe)
    _done[kind] = exe
    return exe


def harness_dir():
    """Source directory of the in-process driver, with /repo's Cargo.lock copied next to it. With VERIF_REPO set (background runs against a
    snapshot of the repository: `vp run --with-repo`, VERIF_REPO=$VP_RUN_REPO) a copy whose path dependencies point at that tree."""
    if "hdir" in _done:
        return _done["hdir"]
    hdir = os.path.join(VERIF, "harness")
    os.makedirs(BUILD, exist_ok=True)
    lock = open(os.path.join(BUILD, ".lock-harness-src"), "w")
    fcntl.flock(lock, fcntl.LOCK_EX)     # several worker processes may ask at the same time
    try:
        if REPO != "/repo":
            alt = os.path.join(BUILD, "harness-src")
            newest = max(os.path.getmtime(os.path.join(dp, f)) for dp, _, fs in os.walk(hdir) if "target" not in dp for f in fs if f != "Cargo.lock")
            stamp = os.path.join(alt, ".stamp")
            if not (os.path.exists(stamp) and os.path.getmtime(stamp) >= newest):
                shutil.rmtree(alt, ignore_errors=True)
                shutil.copytree(hdir, alt, ignore=shutil.ignore_patterns("target", "Cargo.lock"))
                with open(os.path.join(alt, "Cargo.toml")) as f:
                    t = f.read()
                with open(os.path.join(alt, "Cargo.toml"), "w") as f:
                    f.write(t.replace('"/repo/', '"%s/' % REPO.rstrip("/")))
                open(stamp, "w").close()
            hdir = alt
        shutil.copyfile(os.path.join(REPO, "Cargo.lock"), os.path.join(hdir, "Cargo.lock"))
    finally:
        fcntl.flock(lock, fcntl.LOCK_UN)
        lock.close()
    _done["hdir"] = hdir
    return hdir


def harness():
    """The in-process driver crate /verif/harness (path dependencies on /repo's crates)."""
    if "inproc" in _done:
        return _done["inproc"]
    hdir = harness_dir()
    if os.environ.get("VERIF_COVERAGE"):
        td = os.path.join(BUILD, "inproc-cov")
        _cargo(["build", "--release", "--offline"], td, "--cfg fastpasta_verif -Cinstrument-coverage", cwd=hdir, toolchain="+nightly", what="fp_inproc coverage build")
    else:
        td = os.path.join(BUILD, "inproc")
        _cargo(["build", "--release", "--offline"], td, "--cfg fastpasta_verif", cwd=hdir, what="fp_inproc")
    exe = os.path.join(td, "release", "fp_inproc")
    if not os.path.exists(exe):
        raise BuildError("harness binary missing: " + exe)
    _done["inproc"] = exe
    return exe


if __name__ == "__main__":
    import sys
    for k in sys.argv[1:] or ["rel", "inproc"]:
        print(harness() if k == "inproc" else fastpasta(k))
