#!/usr/bin/env python3
"""Sensitivity testing: apply a patch (or the reverse of a fix commit) to /repo's working tree, run checks, restore.

  lib/mutant.py --patch seeded/x/patch.diff C03 C07 [--tier quick]
  lib/mutant.py --reverse-commit 108821b C03
Never commits anything in /repo; always restores with `git checkout -- .`."""
import subprocess, sys, argparse, os, time

REPO = "/repo"
VERIF = os.path.dirname(os.path.dirname(os.path.abspath(__file__)))


def sh(cmd, **kw):
    return subprocess.run(cmd, shell=isinstance(cmd, str), text=True, stdout=subprocess.PIPE, stderr=subprocess.STDOUT, **kw)


def main():
    ap = argparse.ArgumentParser()
    ap.add_argument("--patch")
    ap.add_argument("--reverse-commit")
    ap.add_argument("--tier", default="quick")
    ap.add_argument("--seed", default="1")
    ap.add_argument("checks", nargs="+")
    a = ap.parse_args()
    st = sh("git -C %s status --porcelain --untracked-files=no" % REPO).stdout.strip()
    if st:
        print("refusing: /repo has local changes:\n" + st)
        return 2
    if a.patch:
        p = sh("git -C %s apply %s" % (REPO, os.path.abspath(a.patch)))
    else:
        p = sh("git -C %s show %s | git -C %s apply -R" % (REPO, a.reverse_commit, REPO))
    if p.returncode != 0:
        print("patch does not apply:", p.stdout)
        sh("git -C %s checkout -- ." % REPO)
        return 2
    results = {}
    try:
        for c in a.checks:
            t0 = time.time()
            env = dict(os.environ, VERIF_SEED=a.seed, VERIF_MUTANT_RUN="1")     # evidence files describe the unchanged tree only
            r = sh([os.path.join(VERIF, "check"), c, "--tier", a.tier], cwd=VERIF, env=env)
            lines = [l for l in r.stdout.split("\n") if l.startswith(("VIOLATION", "violation", "KNOWN", "[C", "INCONCLUSIVE", "HARNESS"))]
            results[c] = r.returncode
            print("== %s rc=%d (%.0fs)" % (c, r.returncode, time.time() - t0))
            for l in lines[:6]:
                print("   " + l[:400])
    finally:
        sh("git -C %s checkout -- ." % REPO)
    caught = [c for c, rc in results.items() if rc == 1]
    print("CAUGHT-BY: %s" % (",".join(caught) or "none"))
    return 0


if __name__ == "__main__":
    sys.exit(main())
