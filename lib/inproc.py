"""Runs the in-process driver (fp_inproc) and parses the JSON object on its last stdout line."""
import json, subprocess, os
import build
from common import save_replay, WORK


class InprocError(Exception):
    pass


def run(sub, args, timeout=3600, cwd=None):
    exe = build.harness()
    cmd = [exe, sub] + [str(a) for a in args]
    os.makedirs(WORK, exist_ok=True)
    p = subprocess.run(cmd, stdout=subprocess.PIPE, stderr=subprocess.PIPE, timeout=timeout, cwd=cwd or WORK)
    out = p.stdout.decode("utf-8", "replace").strip().split("\n")
    err = p.stderr.decode("utf-8", "replace")
    last = out[-1] if out else ""
    try:
        j = json.loads(last)
    except Exception:
        j = None
    return p.returncode, j, err, cmd


def check(res, sub, args, sig_prefix, what):
    """Run one harness command; record violations in res. Returns the JSON summary (or None)."""
    rc, j, err, cmd = run(sub, args)
    if j is None or rc not in (0, 1):
        if rc < 0 or "panicked" in err:
            d = save_replay(res.prop, "%s_crash" % sub, {"stderr.txt": err}, {"cmd": cmd, "rc": rc})
            res.violation("%s:crash" % sig_prefix, "%s: driver crashed inside the library (rc=%s): %s" % (what, rc, err[-400:]), d)
            return None
        res.inconclusive.append("%s: no result (rc=%s) %s" % (sub, rc, err[-300:]))
        return None
    for i, v in enumerate(j.get("violations", [])):
        d = save_replay(res.prop, "%s_%d" % (sub, i), {"violation.txt": v}, {"cmd": cmd, "summary": {k: x for k, x in j.items() if k != "violations"}})
        res.violation("%s:%s" % (sig_prefix, v[:60]), v, d)
    return j
