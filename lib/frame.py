"""G-frame: well-framed streams with arbitrary header values and payload bytes (offset_to_next == memory_size)."""
import random
import rdh as R, its

KNOWN_SYSTEM_IDS = [3, 4, 5, 6, 7, 8, 10, 15, 17, 18, 19, 32, 33, 34, 35, 36, 37, 38, 39, 255]


class FPkt:
    __slots__ = ("f", "payload", "offset", "words")

    def __init__(self, f, payload, words=None):
        self.f, self.payload, self.offset, self.words = f, payload, None, words


def random_fields(rng, sane=False):
    """Arbitrary values in every header field (sizes are set later)."""
    f = dict(header_id=rng.choice([6, 7, rng.randrange(256)]), header_size=rng.choice([0x40, rng.randrange(256)]),
             fee_id=rng.getrandbits(16), priority_bit=rng.choice([0, rng.randrange(256)]),
             system_id=rng.choice([32, rng.choice(KNOWN_SYSTEM_IDS)]), rdh0_reserved=rng.choice([0, rng.getrandbits(16)]),
             link_id=rng.randrange(256), packet_counter=rng.randrange(256), cru_id=rng.getrandbits(12), dw=rng.getrandbits(4),
             bc=rng.getrandbits(12), rdh1_reserved=rng.choice([0, rng.getrandbits(20)]), orbit=rng.getrandbits(32),
             data_format=rng.choice([0, 2, rng.randrange(256)]), df_reserved=rng.choice([0, rng.getrandbits(56)]),
             trigger_type=rng.getrandbits(32), pages_counter=rng.getrandbits(16), stop_bit=rng.choice([0, 1, rng.randrange(256)]),
             rdh2_reserved=rng.choice([0, rng.randrange(256)]), reserved1=rng.choice([0, rng.getrandbits(64)]),
             detector_field=rng.getrandbits(32), par_bit=rng.getrandbits(16), rdh3_reserved=rng.choice([0, rng.getrandbits(16)]),
             reserved2=rng.choice([0, rng.getrandbits(64)]))
    if sane:
        f.update(header_size=0x40, priority_bit=0, rdh0_reserved=0, fee_id=R.fee_id(rng.randrange(7), rng.randrange(12), rng.randrange(3)),
                 system_id=32, header_id=rng.choice([6, 7]))
    return f


def make_recognised(f, rng, its_only=False):
    """First RDH0 must pass the start-up gate and carry a known system id for the run to be processed."""
    f["header_id"] = rng.choice([6, 7, 7, 3, 100, 50]) if not its_only else rng.choice([6, 7])
    f["header_size"] = 0x40
    f["priority_bit"] = 0
    f["rdh0_reserved"] = 0
    f["fee_id"] = R.fee_id(rng.randrange(7), rng.randrange(48), rng.randrange(4))
    f["system_id"] = 32 if its_only else rng.choice(KNOWN_SYSTEM_IDS + [32] * 10)
    return f


def random_its_words(rng, n, flags_only_known=True):
    """n words with known identifiers and arbitrary (flag) contents."""
    words = []
    for _ in range(n):
        k = rng.choice(["IHW", "TDH", "TDH", "TDT", "TDT", "DDW", "CDW", "DATA", "DATA", "DATA"])
        if k == "IHW":
            w = its.ihw(rng.getrandbits(28), reserved=rng.choice([0, 0, rng.getrandbits(44)]))
        elif k == "TDH":
            w = its.tdh(rng.getrandbits(12), rng.getrandbits(1), rng.getrandbits(1), rng.getrandbits(1), rng.getrandbits(12),
                        rng.getrandbits(32), rng.choice([0, 0, 1]), rng.choice([0, 0, rng.getrandbits(4)]), rng.choice([0, 0, rng.getrandbits(8)]))
        elif k == "TDT":
            w = its.tdt(rng.getrandbits(1), rng.choice([0, rng.getrandbits(56), 1 << rng.randrange(56)]), rng.getrandbits(1), rng.getrandbits(1),
                        rng.getrandbits(1), rng.getrandbits(1), rng.getrandbits(1), rng.choice([0, 0, rng.getrandbits(5)]), rng.choice([0, 0, 1]),
                        rng.choice([0, 0, rng.getrandbits(4)]))
        elif k == "DDW":
            w = its.ddw0(rng.choice([0, rng.getrandbits(56), 3 << (2 * rng.randrange(28))]), rng.getrandbits(1), rng.getrandbits(1),
                         rng.choice([0, 0, rng.getrandbits(4)]), rng.choice([0, 0, rng.getrandbits(8)]), rng.choice([0, 0, 1]), rng.choice([0, 0, 1]))
        elif k == "CDW":
            w = its.cdw(rng.getrandbits(48), rng.getrandbits(24))
        else:
            w = its.data_word(rng.choice(sorted(its.DATA_IDS)), bytes(rng.getrandbits(8) for _ in range(9)))
        words.append(w)
    return words


def its_payload(words, fmt, pad):
    out = bytearray()
    if fmt == 0:
        for w in words:
            out += w + bytes(6)
    else:
        for w in words:
            out += w
        out += b"\xff" * pad
    return bytes(out)


def sniff_matches(words, fmt, pad):
    """True when the content sniffing of the tool (bytes 10..16 of the payload all zero => 16-byte slots) agrees with fmt."""
    p = its_payload(words, fmt, pad)
    sn = 0 if (len(p) >= 16 and p[10:16] == bytes(6)) else 2
    return sn == (0 if fmt == 0 else 2)


def generate(rng, npk, nlinks=None, payload="random", max_payload=None, sane_headers=False, its_only=False, fmt=None):
    """payload: 'random' arbitrary bytes | 'its' known-id words laid out per data_format | 'none' (RDH only)."""
    nlinks = nlinks or rng.choice([1, 2, 3, 5, 12])
    max_payload = rng.choice([0, 32, 300, 2000, 10000]) if max_payload is None else max_payload
    ids = []
    for _ in range(nlinks):
        ids.append((rng.randrange(256), R.fee_id(rng.randrange(7), rng.randrange(12), rng.randrange(3)) if sane_headers else rng.getrandbits(16)))
    if rng.random() < 0.3 and nlinks > 1:   # two links on the same stave (differ in fibre bits) for the stave filter
        l, fee = ids[0]
        ids[1] = (ids[1][0], (fee & 0x703F) | (rng.randrange(4) << 8))
    if rng.random() < 0.3 and nlinks > 2:   # two FEE ids behind one link id, and one FEE id behind two link ids (ids are independent header fields)
        ids[2] = (ids[0][0], ids[2][1])
        if nlinks > 3:
            ids[3] = (ids[3][0], ids[1][1])
    pk = []
    for i in range(npk):
        f = random_fields(rng, sane=sane_headers)
        l, fee = rng.choice(ids)
        f["link_id"] = l
        f["fee_id"] = fee
        words = None
        if payload == "none" or max_payload == 0:
            body = b""
        elif payload == "random":
            r = rng.random()
            n = 0 if r < 0.1 else (max_payload if r < 0.15 else (rng.randrange(max_payload + 1) if r < 0.3 else rng.randrange(min(max_payload, 160) + 1)))
            body = bytes(rng.getrandbits(8) for _ in range(n)) if n < 4000 else rng.randbytes(n)
        else:
            pf = fmt if fmt is not None else rng.choice([0, 2])
            f["data_format"] = pf
            slot = 16 if pf == 0 else 10
            nw = rng.choice([0, 1, 2, 3, 5, 8, 20, min(max_payload // slot, 60)] + ([max_payload // slot, 520, 600] if max_payload >= 9000 else []))
            nw = min(nw, max_payload // slot)
            for _ in range(20):
                words = random_its_words(rng, nw)
                pad = 0 if pf == 0 else rng.randrange(16)
                if 10 * nw + pad > max_payload and pf == 2:
                    pad = 0
                if sniff_matches(words, pf, pad):
                    break
            body = its_payload(words, pf, pad)
        pk.append(FPkt(f, body, words))
    if pk:
        make_recognised(pk[0].f, rng, its_only=its_only)
    return pk


def serialize(pk):
    out = bytearray()
    for p in pk:
        p.offset = len(out)
        size = 64 + len(p.payload)
        p.f["offset_to_next"] = size
        p.f["memory_size"] = size
        out += R.pack(p.f) + p.payload
    return bytes(out)
