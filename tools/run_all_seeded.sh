#!/bin/bash
# Apply every kept seeded change (seeded/<id>/patch.diff) to /repo in turn, run the quick tier of the checks listed in its meta.json
# ("caught_by_quick_checks"), restore /repo, and report which changes were caught. Never commits anything in /repo.
cd /verif
for d in seeded/*/; do
  id=$(basename $d)
  checks=$(python3 -c "
import json,re,sys
m=json.load(open('$d/meta.json'))
print(' '.join(dict.fromkeys(re.findall(r'C\d\d', m.get('caught_by_quick_checks','')))) or m['property'])")
  out=$(python3 lib/mutant.py --patch $d/patch.diff $checks 2>&1 | grep -E "CAUGHT-BY|patch does not")
  echo "$id [$checks] $out"
done
