#!/bin/bash
# run_seeded.sh <ID> <checks...> : apply seeded/<ID>/patch.diff to /repo, run the quick checks, restore
cd /verif
id=$1; shift
echo "##### $id"
python3 lib/mutant.py --patch seeded/$id/patch.diff "$@" 2>&1 | grep -E "^== |CAUGHT-BY|violation sig|patch does not" | cut -c1-330
