#!/bin/bash
# verify_seeded.sh <worktree> <A|B> : confirm that a seeded change compiles, passes the pinned suite, fails its demo, and that the demo passes without it
set -u
WT=$1; V=$2
cd $WT || exit 2
export CARGO_NET_OFFLINE=true
git checkout -q -- . ; git apply --check _seeded/$V/patch.diff || { echo "PATCH-DOES-NOT-APPLY"; exit 2; }
DEMO=$(ls _seeded/$V/demo.* | head -1)
RUN="bash"; [[ $DEMO == *.py ]] && RUN="python3"
git apply _seeded/$V/patch.diff
T=$(cargo test --workspace --no-fail-fast --offline -j 8 2>&1 | grep -E "^test result" | awk '{p+=$4; f+=$6} END {print p" passed "f" failed"}')
cargo build --offline -j 8 -p fastpasta 2>/dev/null
( cd _seeded/$V && timeout 1200 $RUN $(basename $DEMO) $WT/target/debug/fastpasta >/tmp/wt/demo_${WT##*/}_${V}_with.log 2>&1 ); WITH=$?
git checkout -q -- .
cargo build --offline -j 8 -p fastpasta 2>/dev/null
( cd _seeded/$V && timeout 1200 $RUN $(basename $DEMO) $WT/target/debug/fastpasta >/tmp/wt/demo_${WT##*/}_${V}_without.log 2>&1 ); WITHOUT=$?
echo "RESULT ${WT##*/} $V: suite-with-change: $T | demo with change exit=$WITH | demo without change exit=$WITHOUT"
