#!/usr/bin/env python3
"""Measurement only, never a verdict: which source regions of /repo do the monitors' workloads actually drive?

  tools/coverage.py [--tier quick] [C01 C05 ...]     (default: all 20 quick tiers)

Builds fastpasta and the in-process driver with -Cinstrument-coverage (nightly; hooks on), runs the selected checks with
VERIF_COVERAGE=1 so that every process they start is the instrumented one, merges the profiles and writes
/verif/coverage/REPORT.md: per-file line coverage of the files the properties are anchored in, plus the uncovered lines.
A runtime monitor says nothing about code the workload never reaches; this report is how the workloads were extended.
Aborting runs (panic = abort, signals) do not flush their counters, so the numbers are a lower bound.
"""
import os, sys, subprocess, json, shutil, glob

VERIF = os.path.dirname(os.path.dirname(os.path.abspath(__file__)))
sys.path.insert(0, os.path.join(VERIF, "lib"))
COV = os.path.join(VERIF, ".build", "covdata")
OUT = os.path.join(VERIF, "coverage")


def tool(name):
    sysroot = subprocess.check_output(["rustc", "+nightly", "--print", "sysroot"], text=True).strip()
    return os.path.join(sysroot, "lib", "rustlib", "x86_64-unknown-linux-gnu", "bin", name)


def main():
    args = sys.argv[1:]
    tier = "quick"
    if "--tier" in args:
        i = args.index("--tier")
        tier = args[i + 1]
        del args[i:i + 2]
    checks = args or ["C%02d" % i for i in range(1, 21)]
    shutil.rmtree(COV, ignore_errors=True)
    os.makedirs(COV)
    os.makedirs(OUT, exist_ok=True)
    env = dict(os.environ, VERIF_COVERAGE="1", LLVM_PROFILE_FILE=os.path.join(COV, "fp-%8m.profraw"))
    import build
    os.environ["VERIF_COVERAGE"] = "1"
    os.environ["LLVM_PROFILE_FILE"] = os.path.join(COV, "build-%8m.profraw")  # build scripts / proc macros of the instrumented build write here, not into /repo
    exe = build.fastpasta("rel")
    hexe = build.harness()
    rcs = {}
    for c in checks:
        p = subprocess.run([os.path.join(VERIF, "check"), c, "--tier", tier], env=env, cwd=VERIF, stdout=subprocess.PIPE, stderr=subprocess.STDOUT, text=True)
        rcs[c] = p.returncode
        print(c, "rc=%d" % p.returncode, (p.stdout.strip().splitlines() or [""])[-1], flush=True)
    raws = glob.glob(os.path.join(COV, "*.profraw"))
    prof = os.path.join(COV, "all.profdata")
    subprocess.check_call([tool("llvm-profdata"), "merge", "-sparse", "-o", prof] + raws)
    exp = subprocess.check_output([tool("llvm-cov"), "export", "-format=text", "-instr-profile", prof, exe, "-object", hexe,
                                   "-ignore-filename-regex", r"(\.cargo|/rustc/|/verif/harness)"], text=True)
    data = json.loads(exp)["data"][0]
    rows = []
    for f in data["files"]:
        name = f["filename"]
        if not name.startswith("/repo/"):
            continue
        # segments: [line, col, count, hasCount, isRegionEntry, isGap]
        unc = set()
        cov = set()
        segs = f["segments"]
        for i, s in enumerate(segs):
            line, col, count, has, entry, gap = s[:6]
            if not has or gap:
                continue
            end = segs[i + 1][0] if i + 1 < len(segs) else line
            tgt = cov if count > 0 else unc
            for l in range(line, max(line, end - (1 if i + 1 < len(segs) and segs[i + 1][1] == 1 else 0)) + 1):
                tgt.add(l)
        unc -= cov
        summ = f["summary"]["lines"]
        rows.append((name[len("/repo/"):], summ["count"], summ["covered"], sorted(unc)))
    rows.sort()
    with open(os.path.join(OUT, "REPORT.md"), "w") as fh:
        fh.write("# Source coverage of the monitors' workloads (%s tier: %s)\n\n" % (tier, " ".join(checks)))
        fh.write("Measurement only (see tools/coverage.py). Lower bound: aborted / killed processes do not flush counters.\n\n")
        fh.write("| file | lines | covered | % |\n|---|---|---|---|\n")
        tl = tc = 0
        for n, cnt, c, _ in rows:
            if "/tests" in n or n.endswith("test.rs") or n.startswith("tests/"):
                continue
            tl += cnt
            tc += c
            fh.write("| %s | %d | %d | %.0f |\n" % (n, cnt, c, 100.0 * c / max(cnt, 1)))
        fh.write("| **total** | %d | %d | %.0f |\n\n" % (tl, tc, 100.0 * tc / max(tl, 1)))
        fh.write("## Lines with a never-executed region (non-test code)\n\n")
        for n, cnt, c, unc in rows:
            if unc and not ("/tests" in n or n.startswith("tests/")):
                fh.write("* `%s`: %s\n" % (n, _ranges(unc)))
    print("wrote", os.path.join(OUT, "REPORT.md"), "total lines %d covered %d" % (tl, tc))
    return 0


def _ranges(ls):
    out = []
    a = b = None
    for l in ls:
        if a is None:
            a = b = l
        elif l == b + 1:
            b = l
        else:
            out.append((a, b))
            a = b = l
    if a is not None:
        out.append((a, b))
    return ", ".join("%d" % x if x == y else "%d-%d" % (x, y) for x, y in out)


if __name__ == "__main__":
    sys.exit(main())
