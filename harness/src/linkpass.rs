//! C06 (e): one sequential, single-threaded pass of one link's packets through one real `LinkValidator`.
//! C19: classification of every payload word by the real cutter + FSM (`classify`).
use crate::scan::walk;
use crate::util::*;
use alice_protocol_reader::prelude::*;
use fastpasta::analyze::validators::its::its_payload_fsm_cont::ItsPayloadFsmContinuous;
use fastpasta::analyze::validators::lib::preprocess_payload;
use fastpasta::analyze::validators::link_validator::LinkValidator;
use fastpasta::config::Cfg;
use fastpasta::stats::StatType;

/// fp_inproc linkpass <file> <link|fee> <id> -- <fastpasta check arguments>
pub fn main(args: &[String]) -> i32 {
    let file = &args[0];
    let by_fee = args[1] == "fee";
    let id: u16 = args[2].parse().unwrap();
    let cfg: &'static Cfg = init_cfg(&after_dashes(args));
    let d = std::fs::read(file).expect("read input");
    let (tx, rx) = flume::unbounded::<StatType>();
    let (mut validator, send) = LinkValidator::<RdhCru, Cfg>::new(cfg, tx);
    let mut n = 0;
    for p in walk(&d) {
        let sel = if by_fee { p.fee == id } else { p.link as u16 == id };
        if !sel {
            continue;
        }
        let rdh = RdhCru::load(&mut &d[p.off..p.off + 64]).unwrap();
        let payload = if alice_protocol_reader::prelude::FilterOpt::skip_payload(cfg) { vec![] } else { d[p.off + 64..(p.off + 64 + p.plen).min(d.len())].to_vec() };
        send.send((rdh, payload, p.off as u64)).unwrap();
        n += 1;
    }
    drop(send);
    validator.run();
    drop(validator);
    let mut msgs: Vec<String> = Vec::new();
    while let Ok(s) = rx.try_recv() {
        if let StatType::Error(m) = s {
            msgs.push(m.to_string());
        }
    }
    println!(
        "{{\"packets\":{n},\"errors\":[{}]}}",
        msgs.iter().map(|m| json_str(m)).collect::<Vec<_>>().join(",")
    );
    0
}

/// fp_inproc classify <file> : per link, every word as cut by the real preprocess_payload and classified by the real FSM
pub fn classify(args: &[String]) -> i32 {
    let d = std::fs::read(&args[0]).expect("read input");
    let pk = walk(&d);
    let mut links: Vec<u8> = Vec::new();
    for p in &pk {
        if !links.contains(&p.link) {
            links.push(p.link);
        }
    }
    let mut out: Vec<String> = Vec::new();
    for l in links {
        let mut fsm = ItsPayloadFsmContinuous::new();
        for p in pk.iter().filter(|p| p.link == l) {
            let fmt = d[p.off + 24];
            let slot = if fmt == 0 { 16 } else { 10 };
            let payload = &d[p.off + 64..p.off + 64 + p.plen];
            match preprocess_payload(payload) {
                Ok(chunks) => {
                    for (i, c) in chunks.enumerate() {
                        let k = match fsm.advance(&c[..10]) {
                            Ok(w) => format!("{w:?}"),
                            Err(e) => format!("ERR:{e:?}"),
                        };
                        out.push(format!("[{},{}]", p.off + 64 + i * slot, json_str(&k)));
                    }
                }
                Err(_) => {
                    let _ = fsm.reset_fsm();
                }
            }
        }
    }
    println!("[{}]", out.join(","));
    0
}
