//! C03 (in-process half): the real `InputScanner::load_cdp` over an in-memory reader and over a real file,
//! against an independent walk of the RDH chain (Rust twin of lib/rdh.py:walk).
use crate::util::*;
use alice_protocol_reader::prelude::*;
use std::io::{self, Cursor, Read, Seek, SeekFrom};

pub struct Mem(pub Cursor<Vec<u8>>);
impl Read for Mem {
    fn read(&mut self, buf: &mut [u8]) -> io::Result<usize> {
        self.0.read(buf)
    }
}
impl Seek for Mem {
    fn seek(&mut self, pos: SeekFrom) -> io::Result<u64> {
        self.0.seek(pos)
    }
}
impl BufferedReaderWrapper for Mem {
    fn seek_relative_offset(&mut self, offset: i64) -> io::Result<()> {
        self.0.seek(SeekFrom::Current(offset)).map(|_| ())
    }
}
/// reader that delivers data in short reads of odd sizes (a pipe may do that) and skips by reading
pub struct Dribble {
    data: Vec<u8>,
    pos: usize,
    rng: Rng,
}
impl Read for Dribble {
    fn read(&mut self, buf: &mut [u8]) -> io::Result<usize> {
        let left = self.data.len() - self.pos;
        if left == 0 || buf.is_empty() {
            return Ok(0);
        }
        let n = (1 + self.rng.below(97) as usize).min(left).min(buf.len());
        buf[..n].copy_from_slice(&self.data[self.pos..self.pos + n]);
        self.pos += n;
        Ok(n)
    }
}
impl Seek for Dribble {
    fn seek(&mut self, _pos: SeekFrom) -> io::Result<u64> {
        Err(io::Error::new(io::ErrorKind::Other, "not seekable"))
    }
}
impl BufferedReaderWrapper for Dribble {
    fn seek_relative_offset(&mut self, offset: i64) -> io::Result<()> {
        let mut buf = vec![0u8; offset as usize];
        self.read_exact(&mut buf)
    }
}

#[derive(Clone, Copy)]
pub struct Fc {
    pub skip: bool,
    pub link: Option<u8>,
    pub fee: Option<u16>,
    pub stave: Option<u16>,
}
impl FilterOpt for Fc {
    fn skip_payload(&self) -> bool {
        self.skip
    }
    fn filter_link(&self) -> Option<u8> {
        self.link
    }
    fn filter_fee(&self) -> Option<u16> {
        self.fee
    }
    fn filter_its_stave(&self) -> Option<u16> {
        self.stave
    }
}

pub struct Pk {
    pub off: usize,
    pub plen: usize,
    pub next: usize,
    pub link: u8,
    pub fee: u16,
}
/// independent chain walk
pub fn walk(d: &[u8]) -> Vec<Pk> {
    let mut v = Vec::new();
    let mut pos = 0usize;
    while pos + 64 <= d.len() {
        let off_next = u16::from_le_bytes([d[pos + 8], d[pos + 9]]) as usize;
        let mem = u16::from_le_bytes([d[pos + 10], d[pos + 11]]) as usize;
        if !(64..=10064).contains(&off_next) {
            break;
        }
        v.push(Pk { off: pos, plen: mem.wrapping_sub(64) & 0xFFFF, next: off_next, link: d[pos + 12], fee: u16::from_le_bytes([d[pos + 2], d[pos + 3]]) });
        pos += off_next;
    }
    v
}

fn gen_stream(rng: &mut Rng, npk: usize, nlinks: u64, max_payload: u64) -> Vec<u8> {
    let mut d = Vec::new();
    let links: Vec<u8> = (0..nlinks).map(|_| rng.below(256) as u8).collect();
    let fees: Vec<u16> = (0..nlinks).map(|_| rng.next() as u16).collect();
    for _ in 0..npk {
        let mut h = [0u8; 64];
        for b in h.iter_mut() {
            *b = rng.below(256) as u8; // arbitrary header field values
        }
        let li = rng.below(nlinks) as usize;
        h[12] = links[li];
        h[2..4].copy_from_slice(&fees[li].to_le_bytes());
        let plen = match rng.below(10) {
            0 => 0,
            1 => max_payload,
            2 => rng.below(max_payload + 1),
            _ => rng.below(200.min(max_payload + 1)),
        } as u16;
        let size = 64 + plen;
        h[8..10].copy_from_slice(&size.to_le_bytes());
        h[10..12].copy_from_slice(&size.to_le_bytes());
        d.extend_from_slice(&h);
        for _ in 0..plen {
            d.push(rng.below(256) as u8);
        }
    }
    d
}

fn check_case(d: &[u8], cfg: Fc, reader_kind: u8, from_rdh0: bool, tmp: &str, rng_seed: u64, what: &str) -> Result<(u64, u64), String> {
    let pk = walk(d);
    let want: Vec<&Pk> = pk
        .iter()
        .filter(|p| {
            if let Some(l) = cfg.link {
                p.link == l
            } else if let Some(f) = cfg.fee {
                p.fee == f
            } else if let Some(s) = cfg.stave {
                (p.fee & 0x703F) == (s & 0x703F)
            } else {
                true
            }
        })
        .collect();
    let (tx, rx) = flume::unbounded();
    let mut reader: Box<dyn BufferedReaderWrapper> = match reader_kind {
        0 => Box::new(Mem(Cursor::new(d.to_vec()))),
        1 => Box::new(Dribble { data: d.to_vec(), pos: 0, rng: Rng::new(rng_seed) }),
        _ => {
            std::fs::write(tmp, d).map_err(|e| format!("harness: {e}"))?;
            alice_protocol_reader::init_reader(Some(std::path::Path::new(tmp))).map_err(|e| format!("harness: {e}"))?
        }
    };
    let mut sc = if from_rdh0 && d.len() >= 8 {
        let rdh0 = Rdh0::load(&mut reader).map_err(|e| format!("{what}: first RDH0: {e}"))?;
        InputScanner::new_from_rdh0(&cfg, reader, Some(tx), rdh0)
    } else {
        InputScanner::new(&cfg, reader, Some(tx))
    };
    let mut got = 0usize;
    let mut payload_bytes = 0u64;
    loop {
        match sc.load_cdp::<RdhCru>() {
            Ok((rdh, payload, off)) => {
                let Some(w) = want.get(got) else {
                    return Err(format!("{what}: packet #{got} returned at offset {off:#X} but only {} packets match", want.len()));
                };
                if off as usize != w.off {
                    return Err(format!("{what}: packet #{got} reported at offset {off:#X}, its true offset is {:#X}", w.off));
                }
                if rdh.to_byte_slice() != &d[w.off..w.off + 64] {
                    return Err(format!("{what}: packet #{got} at {off:#X}: header bytes differ from the input"));
                }
                if cfg.skip {
                    if !payload.is_empty() {
                        return Err(format!("{what}: packet #{got}: payload returned although payloads are skipped"));
                    }
                } else if payload.as_slice() != &d[w.off + 64..w.off + 64 + w.plen] {
                    return Err(format!("{what}: packet #{got} at {off:#X}: payload bytes differ from the {} bytes that follow the header", w.plen));
                }
                payload_bytes += w.plen as u64;
                got += 1;
            }
            Err(e) => {
                if got != want.len() {
                    return Err(format!("{what}: scanning ended after {got} packets ({e}), {} packets match", want.len()));
                }
                break;
            }
        }
    }
    drop(sc);
    let (mut seen, mut filtered, mut psize) = (0u64, 0u64, 0u64);
    while let Ok(s) = rx.try_recv() {
        match s {
            InputStatType::RDHSeen(n) => seen += n as u64,
            InputStatType::RDHFiltered(n) => filtered += n as u64,
            InputStatType::PayloadSize(n) => psize += n as u64,
            _ => {}
        }
    }
    let has_filter = cfg.link.is_some() || cfg.fee.is_some() || cfg.stave.is_some();
    // with a filter the scanner stops visiting after the last match only at end of input: all packets are visited
    if seen != pk.len() as u64 {
        return Err(format!("{what}: RDHs visited counted {seen}, the chain has {}", pk.len()));
    }
    if has_filter && filtered != want.len() as u64 {
        return Err(format!("{what}: RDHs matching counted {filtered}, {} match", want.len()));
    }
    if psize != payload_bytes {
        return Err(format!("{what}: payload bytes counted {psize}, returned packets carry {payload_bytes}"));
    }
    Ok((got as u64, pk.len() as u64))
}

pub fn main(args: &[String]) -> i32 {
    let seed = arg_u64(args, "--seed", 1);
    let cases = arg_u64(args, "--cases", 200);
    let max_packets = arg_u64(args, "--max-packets", 1000);
    let use_files = arg_u64(args, "--files", 1) == 1;
    let tmp = arg_val(args, "--tmp").unwrap_or_else(|| "/verif/.work/scan.raw".to_string());
    let mut rng = Rng::new(seed);
    let mut viol: Vec<String> = Vec::new();
    let (mut total_ret, mut total_pk, mut runs) = (0u64, 0u64, 0u64);
    let mut kinds = std::collections::BTreeSet::new();
    let small = arg_u64(args, "--small", 0) == 1; // tiny workload for interpreters (Miri)
    let special: Vec<usize> = if small { vec![0, 1, 2, 3] } else { vec![0, 1, 2, 99, 100, 101, 199, 200, 201, 300] };
    for c in 0..cases {
        let npk = if (c as usize) < special.len() { special[c as usize] } else if rng.chance(1, 10) { max_packets as usize } else { rng.below(max_packets.min(400)) as usize };
        let nlinks = 1 + rng.below(5);
        let maxp = if small { *rng.pick(&[0u64, 16, 200]) } else { *rng.pick(&[0u64, 16, 200, 1000, 10000]) };
        let d = gen_stream(&mut rng, npk, nlinks, maxp);
        let pk = walk(&d);
        if pk.len() != npk {
            viol.push(format!("harness: generated {npk} packets, walk finds {}", pk.len()));
            continue;
        }
        for conf in 0..6 {
            let present = if pk.is_empty() { None } else { Some(&pk[rng.below(pk.len() as u64) as usize]) };
            let mut cfg = Fc { skip: rng.chance(1, 2), link: None, fee: None, stave: None };
            let what_f;
            match conf {
                0 => what_f = "no filter".to_string(),
                1 => {
                    cfg.link = Some(present.map(|p| p.link).unwrap_or(3));
                    what_f = format!("--filter-link {}", cfg.link.unwrap());
                }
                2 => {
                    cfg.fee = Some(present.map(|p| p.fee).unwrap_or(3));
                    what_f = format!("--filter-fee {}", cfg.fee.unwrap());
                }
                3 => {
                    cfg.stave = Some(present.map(|p| p.fee & 0x703F).unwrap_or(3));
                    what_f = format!("--filter-its-stave {:#X}", cfg.stave.unwrap());
                }
                4 => {
                    // a value that is not present
                    let mut l = rng.below(256) as u8;
                    while pk.iter().any(|p| p.link == l) {
                        l = l.wrapping_add(1);
                    }
                    cfg.link = Some(l);
                    what_f = format!("--filter-link {l} (absent)");
                }
                _ => {
                    cfg.skip = !cfg.skip;
                    what_f = "no filter".to_string();
                }
            }
            let reader_kind = if use_files { rng.below(3) as u8 } else { rng.below(2) as u8 };
            let from0 = rng.chance(1, 2);
            let what = format!(
                "case {c} (seed {seed}): {npk} packets, {what_f}, payload {}, reader {}, first-RDH0 path {from0}",
                if cfg.skip { "skipped" } else { "loaded" },
                ["memory", "short reads (pipe like)", "file"][reader_kind as usize]
            );
            kinds.insert((conf, cfg.skip, reader_kind, from0));
            runs += 1;
            match check_case(&d, cfg, reader_kind, from0, &tmp, seed ^ c, &what) {
                Ok((r, p)) => {
                    total_ret += r;
                    total_pk += p;
                }
                Err(e) => {
                    if viol.len() < 20 {
                        viol.push(e);
                    }
                }
            }
        }
    }
    let _ = std::fs::remove_file(&tmp);
    let ok = viol.is_empty();
    println!(
        "{{\"ok\":{ok},\"streams\":{cases},\"scans\":{runs},\"packets_walked\":{total_pk},\"packets_returned_and_compared\":{total_ret},\"distinct_configurations\":{},\"violations\":[{}]}}",
        kinds.len(),
        viol.iter().take(10).map(|v| json_str(v)).collect::<Vec<_>>().join(",")
    );
    if ok {
        0
    } else {
        1
    }
}
