//! C11: word-level sanity predicates against reference predicates written from the bit layouts.
use crate::util::*;
use fastpasta::analyze::validators::its::data_words::{
    ib::IbDataWordValidator, ob::ObDataWordValidator, DataWordSanityChecker,
};
use fastpasta::analyze::validators::its::status_word::StatusWordSanityChecker;
use fastpasta::words::its::status_words::{ddw::Ddw0, ihw::Ihw, tdh::Tdh, tdt::Tdt, StatusWord};

fn val(w: &[u8; 10]) -> u128 {
    let mut b = [0u8; 16];
    b[..10].copy_from_slice(w);
    u128::from_le_bytes(b)
}
fn bits(v: u128, hi: u32, lo: u32) -> u128 {
    (v >> lo) & ((1u128 << (hi - lo + 1)) - 1)
}

// ---- reference predicates (true = word passes its sanity check) ---------------------------------------
fn ref_ihw(w: &[u8; 10]) -> bool {
    let v = val(w);
    bits(v, 79, 72) == 0xE0 && bits(v, 71, 28) == 0
}
fn ref_tdh(w: &[u8; 10]) -> bool {
    let v = val(w);
    bits(v, 79, 72) == 0xE8
        && bits(v, 15, 15) == 0
        && bits(v, 31, 28) == 0
        && bits(v, 71, 64) == 0
        && !(bits(v, 11, 0) == 0 && bits(v, 12, 12) == 0)
}
fn ref_tdt(w: &[u8; 10]) -> bool {
    let v = val(w);
    bits(v, 79, 72) == 0xF0 && bits(v, 60, 56) == 0 && bits(v, 66, 66) == 0 && bits(v, 71, 68) == 0
}
fn ref_ddw0(w: &[u8; 10]) -> bool {
    let v = val(w);
    bits(v, 79, 72) == 0xE4
        && bits(v, 63, 56) == 0
        && bits(v, 64, 64) == 0
        && bits(v, 66, 66) == 0
        && bits(v, 71, 68) == 0
}
fn ref_data_id(id: u8) -> bool {
    (0x20..=0x28).contains(&id)
        || (0x40..=0x46).contains(&id)
        || (0x48..=0x4E).contains(&id)
        || (0x50..=0x56).contains(&id)
        || (0x58..=0x5E).contains(&id)
}

fn imp(kind: usize, w: &[u8; 10]) -> bool {
    match kind {
        0 => StatusWordSanityChecker::check_ihw(&Ihw::load(&mut &w[..]).unwrap()).is_ok(),
        1 => StatusWordSanityChecker::check_tdh(&Tdh::load(&mut &w[..]).unwrap()).is_ok(),
        2 => StatusWordSanityChecker::check_tdt(&Tdt::load(&mut &w[..]).unwrap()).is_ok(),
        _ => StatusWordSanityChecker::check_ddw0(&Ddw0::load(&mut &w[..]).unwrap()).is_ok(),
    }
}
fn reference(kind: usize, w: &[u8; 10]) -> bool {
    match kind {
        0 => ref_ihw(w),
        1 => ref_tdh(w),
        2 => ref_tdt(w),
        _ => ref_ddw0(w),
    }
}
const NAMES: [&str; 4] = ["IHW", "TDH", "TDT", "DDW0"];

fn with_body(id: u8, body: u128) -> [u8; 10] {
    let mut w = [0u8; 10];
    w[..9].copy_from_slice(&body.to_le_bytes()[..9]);
    w[9] = id;
    w
}

pub fn main(args: &[String]) -> i32 {
    let seed = arg_u64(args, "--seed", 1);
    let nrand = arg_u64(args, "--random", 1_000_000);
    let mut viol: Vec<String> = Vec::new();
    let mut evals = 0u64;
    let mut rejected = 0u64; // words the reference rejects (non-trivial half)
    let mut accepted = 0u64;
    let mut cmp = |kind: usize, w: &[u8; 10], viol: &mut Vec<String>| {
        let r = reference(kind, w);
        let i = imp(kind, w);
        evals += 1;
        if r {
            accepted += 1
        } else {
            rejected += 1
        }
        if r != i && viol.len() < 20 {
            viol.push(format!(
                "{} word [{}]: sanity check {} but the bit layout says {}",
                NAMES[kind],
                hex(w),
                if i { "passes" } else { "fails" },
                if r { "valid" } else { "invalid" }
            ));
        }
    };
    // structured, exhaustive over: 256 ids x {zero, all 72 single bits, all 2556 bit pairs, all ones}
    let mut structured = 0u64;
    for kind in 0..4 {
        for id in 0..=255u8 {
            structured += 2 + 72 + 2556;
            cmp(kind, &with_body(id, 0), &mut viol);
            cmp(kind, &with_body(id, (1u128 << 72) - 1), &mut viol);
            for a in 0..72 {
                cmp(kind, &with_body(id, 1u128 << a), &mut viol);
                for b in (a + 1)..72 {
                    cmp(kind, &with_body(id, (1u128 << a) | (1u128 << b)), &mut viol);
                }
            }
        }
    }
    // all bit triples of the body under the word's own identifier (59 640 per word type): every 3-field interaction of reserved / non-reserved bits
    let own = [0xE0u8, 0xE8, 0xF0, 0xE4];
    for kind in 0..4 {
        for a in 0..72 {
            for b in (a + 1)..72 {
                for c in (b + 1)..72 {
                    structured += 1;
                    cmp(kind, &with_body(own[kind], (1u128 << a) | (1u128 << b) | (1u128 << c)), &mut viol);
                }
            }
        }
    }
    // every contiguous run of ones in the body (all 2628 bit ranges) under the own identifier: a field that is completely set (all lanes Fatal,
    // every flag, the maximum of a counter) alone and together with its neighbours
    for kind in 0..4 {
        for lo in 0..72u32 {
            for hi in lo..72u32 {
                structured += 1;
                let run = if hi - lo == 71 { (1u128 << 72) - 1 } else { ((1u128 << (hi - lo + 1)) - 1) << lo };
                cmp(kind, &with_body(own[kind], run), &mut viol);
            }
        }
    }
    // random: half with the right identifier (so that body bits decide), half fully random
    let mut rng = Rng::new(seed);
    let ids = [0xE0u8, 0xE8, 0xF0, 0xE4];
    for n in 0..nrand {
        let kind = (n % 4) as usize;
        let body = ((rng.next() as u128) << 64 | rng.next() as u128) & ((1u128 << 72) - 1);
        // sparse bodies reach "everything zero but one field" more often
        let body = match rng.below(4) {
            0 => body,
            1 => body & ((rng.next() as u128) << 64 | rng.next() as u128),
            2 => body & ((rng.next() as u128) << 64 | rng.next() as u128) & ((rng.next() as u128) << 64 | rng.next() as u128),
            _ => body & 0x0000_0000_00FF_FFFF_FFFF_FFFF_0FFF_7FFF, // mostly non-reserved positions
        };
        let id = if rng.chance(1, 2) { ids[kind] } else { rng.below(256) as u8 };
        cmp(kind, &with_body(id, body), &mut viol);
    }
    drop(cmp);

    // ---- data words ---------------------------------------------------------------------------------------
    let mut data_evals = 0u64;
    let mut data_reported = 0u64;
    for id in 0..=255u8 {
        let w = with_body(id, 0x0102_0304_0506_0708_09);
        let i = DataWordSanityChecker::check_any(&w).is_ok();
        data_evals += 1;
        if i != ref_data_id(id) {
            viol.push(format!("data word id {id:#04X}: check_any {} but reference says {}", i, ref_data_id(id)));
        }
        // masks: empty, full, every single lane, every all-but-one lane, random
        let mut masks: Vec<u32> = vec![0, 0x0FFF_FFFF];
        for l in 0..28 {
            masks.push(1 << l);
            masks.push(0x0FFF_FFFF & !(1 << l));
        }
        for _ in 0..64 {
            masks.push((rng.next() as u32) & 0x0FFF_FFFF);
        }
        for m in masks {
            data_evals += 1;
            if id >> 5 == 0b001 {
                let lane = (id & 0x1F) as u32;
                let want_ok = lane < 32 && (m >> lane) & 1 == 1;
                let got = IbDataWordValidator::check(&w, m);
                if !want_ok {
                    data_reported += 1;
                }
                if got.is_ok() != want_ok {
                    viol.push(format!("IB data word id {id:#04X} active_lanes {m:#X}: check {:?}, reference ok={want_ok}", got));
                } else if let Err(e) = &got {
                    if !e.contains("[E72]") {
                        viol.push(format!("IB data word id {id:#04X}: error without [E72]: {e}"));
                    }
                }
            } else if id >> 5 == 0b010 {
                let input = id & 7;
                let connector = (id >> 3) & 3;
                let got = ObDataWordValidator::check(&w, m);
                let msgs: Vec<String> = got.clone().err().unwrap_or_default();
                let has73 = msgs.iter().any(|x| x.contains("[E73]"));
                let has71 = msgs.iter().any(|x| x.contains("[E71]"));
                if has73 != (input > 6) {
                    viol.push(format!("OB data word id {id:#04X}: [E73] {} but connector input is {input}", has73));
                }
                if input <= 6 {
                    let lane = 7 * connector as u32 + input as u32;
                    let active = (m >> lane) & 1 == 1;
                    if !active {
                        data_reported += 1;
                    }
                    if has71 == active {
                        viol.push(format!("OB data word id {id:#04X} (lane {lane}) active_lanes {m:#X}: [E71] {}, lane active {active}", has71));
                    }
                    if got.is_ok() != active {
                        viol.push(format!("OB data word id {id:#04X} active_lanes {m:#X}: result {:?} but lane active = {active}", got));
                    }
                } else {
                    data_reported += 1;
                }
            }
        }
    }
    // the IHW accessor that governs the lane checks: active_lanes = bits 27:0 of the word
    for i in 0..2000u32 {
        let v: u32 = if i < 28 { 1 << i } else if i < 56 { 0x0FFF_FFFF & !(1 << (i - 28)) } else { rng.next() as u32 };
        let mut w = [0u8; 10];
        w[..4].copy_from_slice(&v.to_le_bytes());
        w[9] = 0xE0;
        let got = Ihw::load(&mut &w[..]).unwrap().active_lanes();
        data_evals += 1;
        if got != v & 0x0FFF_FFFF {
            viol.push(format!("IHW [{}]: active_lanes() = {got:#X}, bits 27:0 of the word are {:#X}", hex(&w), v & 0x0FFF_FFFF));
            break;
        }
    }
    let ok = viol.is_empty();
    println!(
        "{{\"ok\":{ok},\"status_word_evaluations\":{evals},\"structured\":{structured},\"reference_rejects\":{rejected},\"reference_accepts\":{accepted},\"data_word_evaluations\":{data_evals},\"data_word_reported\":{data_reported},\"violations\":[{}]}}",
        viol.iter().take(10).map(|v| json_str(v)).collect::<Vec<_>>().join(",")
    );
    if ok {
        0
    } else {
        1
    }
}
