//! fp_inproc: drives fastPASTA's real library code in-process against small reference oracles.
//! Every subcommand prints one JSON object on its last stdout line: {"ok":bool, ...counts..., "violations":[...]}
mod fsm;
mod payload;
mod rdhchk;
mod scan;
mod util;
mod words;
mod linkpass;
mod unsafe_sites;

fn main() {
    let args: Vec<String> = std::env::args().collect();
    let sub = args.get(1).map(|s| s.as_str()).unwrap_or("");
    let rest = &args[2.min(args.len())..];
    let code = match sub {
        "fsm" => fsm::main(rest),
        "words" => words::main(rest),
        "rdh" => rdhchk::main(rest),
        "payload" => payload::main(rest),
        "scan" => scan::main(rest),
        "linkpass" => linkpass::main(rest),
        "classify" => linkpass::classify(rest),
        "unsafe" => unsafe_sites::main(rest),
        _ => {
            eprintln!("usage: fp_inproc fsm|words|rdh|payload|scan|linkpass|classify ...");
            2
        }
    };
    std::process::exit(code);
}
