//! C12 (in-process half): `preprocess_payload` against a reference cutter.
use crate::util::*;
use fastpasta::analyze::validators::lib::preprocess_payload;

fn mk_word(rng: &mut Rng, idx: usize, n: usize) -> [u8; 10] {
    // a corrupted word of ten 0xFF in the middle of a payload is still a word (only the END of a payload is padding)
    if idx >= 1 && idx + 1 < n && rng.chance(1, 12) {
        return [0xFFu8; 10];
    }
    let mut w = [0u8; 10];
    for b in w.iter_mut() {
        *b = rng.below(256) as u8;
    }
    // identifier byte: never 0xFF (a word never ends in the padding byte), bytes 0..6 never all zero
    // (a format 2 payload whose second word starts with six 0x00 is indistinguishable from format 0 for the
    // content sniffing: known finding D8, exercised separately)
    let ids = [0xE0u8, 0xE8, 0xF0, 0xE4, 0xF8, 0x20, 0x28, 0x43, 0x5E, 0x00, 0x7F];
    w[9] = *rng.pick(&ids);
    if rng.chance(1, 3) {
        // trailing 0xFF bytes inside the body must not be counted as padding beyond the identifier
        for b in w[4..9].iter_mut() {
            *b = 0xFF;
        }
    }
    if w[..6].iter().all(|x| *x == 0) {
        w[idx % 6] = 1;
    }
    if rng.chance(1, 8) {
        w[0] = 1; // mostly-zero words
        for b in w[1..9].iter_mut() {
            *b = 0;
        }
    }
    w
}

pub fn main(args: &[String]) -> i32 {
    let seed = arg_u64(args, "--seed", 1);
    let max_words = arg_u64(args, "--max-words", 60) as usize;
    let max_ff = arg_u64(args, "--max-ff", 40) as usize;
    let samples = arg_u64(args, "--samples", 400) as usize; // extra random (large) word counts
    let mut rng = Rng::new(seed);
    let mut viol: Vec<String> = Vec::new();
    let (mut evals, mut errs_expected, mut words_compared) = (0u64, 0u64, 0u64);
    let mut residues10 = std::collections::BTreeSet::new();
    let mut residues16 = std::collections::BTreeSet::new();
    let mut counts: Vec<usize> = (0..=max_words).collect();
    for _ in 0..samples {
        counts.push(rng.below(701) as usize);
    }
    counts.push(700);
    for fmt in [0u8, 2] {
        for &n in &counts {
            let ffs: Vec<usize> = if n <= max_words { (0..=max_ff).collect() } else { vec![0, rng.below(16) as usize, 9, 10, 15, 16, rng.below(41) as usize] };
            for ff in ffs {
                let words: Vec<[u8; 10]> = (0..n).map(|i| mk_word(&mut rng, i, n)).collect();
                let mut p: Vec<u8> = Vec::new();
                for w in &words {
                    p.extend_from_slice(w);
                    if fmt == 0 {
                        // the slot of an all-0xFF word is sometimes 0xFF throughout (16 bytes)
                        if w.iter().all(|b| *b == 0xFF) && rng.chance(1, 2) {
                            p.extend_from_slice(&[0xFFu8; 6]);
                        } else {
                            p.extend_from_slice(&[0u8; 6]);
                        }
                    }
                }
                // a format 0 payload that ends in zero padding has no trailing 0xFF of its own, format 2 may end in 0xFF
                // bytes that belong to the last word only if its identifier were 0xFF (excluded)
                p.extend(std::iter::repeat(0xFFu8).take(ff));
                residues10.insert(p.len() % 10);
                residues16.insert(p.len() % 16);
                evals += 1;
                let got = preprocess_payload(&p);
                let expect_err = ff > 15;
                match got {
                    Err(e) => {
                        if !expect_err {
                            viol.push(format!("format {fmt}, {n} words, {ff} bytes 0xFF: rejected ({e}) but padding is within the limit"));
                        } else {
                            errs_expected += 1;
                        }
                    }
                    Ok(chunks) => {
                        if expect_err {
                            viol.push(format!("format {fmt}, {n} words, {ff} bytes 0xFF: accepted although the padding exceeds 15 bytes"));
                            continue;
                        }
                        let got_words: Vec<Vec<u8>> = chunks.map(|c| c[..10].to_vec()).collect();
                        if got_words.len() != words.len() {
                            viol.push(format!("format {fmt}, {n} words, {ff} bytes 0xFF padding (payload {} bytes): cut into {} words", p.len(), got_words.len()));
                            continue;
                        }
                        for (i, (g, w)) in got_words.iter().zip(words.iter()).enumerate() {
                            words_compared += 1;
                            if g.as_slice() != &w[..] {
                                viol.push(format!("format {fmt}, {n} words, {ff} bytes 0xFF: word {i} is [{}], expected [{}]", hex(g), hex(w)));
                                break;
                            }
                        }
                    }
                }
                if viol.len() > 20 {
                    break;
                }
            }
        }
    }
    let ok = viol.is_empty();
    println!(
        "{{\"ok\":{ok},\"payloads\":{evals},\"over_padded\":{errs_expected},\"words_compared\":{words_compared},\"residues_mod10\":{},\"residues_mod16\":{},\"violations\":[{}]}}",
        residues10.len(),
        residues16.len(),
        viol.iter().take(10).map(|v| json_str(v)).collect::<Vec<_>>().join(",")
    );
    if ok {
        0
    } else {
        1
    }
}
