//! C09: drives the real `ItsPayloadFsmContinuous::advance` (classification + successor, via the H3 state id)
//! and the real `CdpRunningValidator::check` (reporting half) in lockstep against a table transcription of
//! doc/ITS_payload_fsm_continuous_mode.puml (+ CDW in the data states, doc/checks_list.md).
use crate::util::*;
use alice_protocol_reader::prelude::*;
use fastpasta::analyze::validators::its::cdp_running::CdpRunningValidator;
use fastpasta::analyze::validators::its::its_payload_fsm_cont::ItsPayloadFsmContinuous;
use fastpasta::analyze::validators::its::lib::ItsPayloadWord;
use fastpasta::config::Cfg;
use fastpasta::stats::StatType;
use std::collections::{BTreeMap, BTreeSet, VecDeque};

#[derive(Clone, Copy, PartialEq, Eq, PartialOrd, Ord, Debug)]
pub enum M {
    ExpIhw,
    ExpTdh,
    AfterTdhData,
    InData,
    AfterTdhNoData,
    AfterTdtDone,
    ExpCIhw,
    ExpCTdh,
    AfterCTdh,
    InCData,
}

/// fixed correspondence implementation state id (hook H3) -> diagram state
fn corr(id: u8) -> Option<M> {
    Some(match id {
        0 | 1 => M::ExpIhw,
        2 => M::ExpTdh,
        3 => M::AfterTdhData,
        4 => M::InData,
        5 => M::AfterTdhNoData,
        6 => M::AfterTdtDone,
        7 => M::ExpCIhw,
        8 => M::ExpCTdh,
        9 => M::AfterCTdh,
        10 => M::InCData,
        _ => return None,
    })
}

#[derive(Clone, Copy, PartialEq, Eq, Debug)]
enum Kind {
    Ihw,
    Tdh,
    Tdt,
    Ddw0,
    Cdw,
    Data,
}

fn base_kind(w: ItsPayloadWord) -> Kind {
    match w {
        ItsPayloadWord::IHW | ItsPayloadWord::IHW_continuation => Kind::Ihw,
        ItsPayloadWord::TDH | ItsPayloadWord::TDH_continuation | ItsPayloadWord::TDH_after_packet_done => Kind::Tdh,
        ItsPayloadWord::TDT => Kind::Tdt,
        ItsPayloadWord::CDW => Kind::Cdw,
        ItsPayloadWord::DataWord => Kind::Data,
        ItsPayloadWord::DDW0 => Kind::Ddw0,
    }
}

fn is_data_id(id: u8) -> bool {
    matches!(id, 0x20..=0x28 | 0x40..=0x46 | 0x48..=0x4E | 0x50..=0x56 | 0x58..=0x5E)
}

enum Verdict {
    /// legal word: expected classification and successor
    Legal(Kind, M),
    /// documented ambiguity (TDT directly after a TDH announcing data): either accepted as TDT with the given
    /// successor, or reported as an unrecognised ID
    Either(Kind, M),
    /// illegal identifier: one of these codes must be reported at the word; the successor is the implementation's
    Illegal(&'static [&'static str]),
}

const SINGLE_IHW: &[&str] = &["30"];
const SINGLE_TDH: &[&str] = &["40"];
const CHOICE: &[&str] = &["990", "991", "992"];

fn model(state: M, w: &[u8]) -> Verdict {
    let id = w[9];
    let no_data = w[1] & 0x20 != 0;
    let packet_done = w[8] & 1 != 0;
    let after_tdt = if packet_done { M::AfterTdtDone } else { M::ExpCIhw };
    match state {
        M::ExpIhw => {
            if id == 0xE0 {
                Verdict::Legal(Kind::Ihw, M::ExpTdh)
            } else {
                Verdict::Illegal(SINGLE_IHW)
            }
        }
        M::ExpTdh => {
            if id == 0xE8 {
                Verdict::Legal(Kind::Tdh, if no_data { M::AfterTdhNoData } else { M::AfterTdhData })
            } else {
                Verdict::Illegal(SINGLE_TDH)
            }
        }
        M::ExpCIhw => {
            if id == 0xE0 {
                Verdict::Legal(Kind::Ihw, M::ExpCTdh)
            } else {
                Verdict::Illegal(SINGLE_IHW)
            }
        }
        M::ExpCTdh => {
            if id == 0xE8 {
                Verdict::Legal(Kind::Tdh, M::AfterCTdh)
            } else {
                Verdict::Illegal(SINGLE_TDH)
            }
        }
        M::AfterTdhData | M::InData | M::AfterCTdh | M::InCData => {
            let cont = matches!(state, M::AfterCTdh | M::InCData);
            let in_data = if cont { M::InCData } else { M::InData };
            if is_data_id(id) {
                Verdict::Legal(Kind::Data, in_data)
            } else if id == 0xF8 {
                Verdict::Legal(Kind::Cdw, in_data)
            } else if id == 0xF0 {
                if matches!(state, M::AfterTdhData | M::AfterCTdh) {
                    Verdict::Either(Kind::Tdt, after_tdt)
                } else {
                    Verdict::Legal(Kind::Tdt, after_tdt)
                }
            } else {
                Verdict::Illegal(CHOICE)
            }
        }
        M::AfterTdhNoData | M::AfterTdtDone => match id {
            0xE8 => Verdict::Legal(Kind::Tdh, if no_data { M::AfterTdhNoData } else { M::AfterTdhData }),
            0xE0 => Verdict::Legal(Kind::Ihw, M::ExpTdh),
            0xE4 => Verdict::Legal(Kind::Ddw0, M::ExpIhw),
            _ => Verdict::Illegal(CHOICE),
        },
    }
}

/// The word alphabet of the exhaustive exploration
pub fn alphabet() -> Vec<(&'static str, [u8; 10])> {
    let mut v: Vec<(&'static str, [u8; 10])> = Vec::new();
    let w = |b0: u8, b1: u8, b8: u8, id: u8| -> [u8; 10] { [b0, b1, 0, 0, 0, 0, 0, 0, b8, id] };
    v.push(("IHW", [0xFF, 0xFF, 0xFF, 0x0F, 0, 0, 0, 0, 0, 0xE0]));
    v.push(("TDH nd0 c0", w(0x03, 0x10, 0, 0xE8)));
    v.push(("TDH nd0 c1", w(0x03, 0x50, 0, 0xE8)));
    v.push(("TDH nd1 c0", w(0x03, 0x30, 0, 0xE8)));
    v.push(("TDH nd1 c1", w(0x03, 0x70, 0, 0xE8)));
    v.push(("TDT pd0", w(0, 0, 0, 0xF0)));
    v.push(("TDT pd1", w(0, 0, 1, 0xF0)));
    v.push(("DDW0", w(0, 0, 0, 0xE4)));
    v.push(("CDW", w(0, 0, 0, 0xF8)));
    v.push(("IB data", w(0xA1, 0x10, 0xB0, 0x21)));
    v.push(("OB data", w(0xE0, 0x33, 0, 0x43)));
    v.push(("OB data last", w(0xE0, 0x33, 0, 0x5E)));
    v.push(("unknown 00", w(0, 0, 0, 0x00)));
    v.push(("unknown 29", w(0, 0, 0, 0x29)));
    v.push(("unknown 47", w(0, 0, 0, 0x47)));
    v.push(("unknown 4F", w(0, 0, 0, 0x4F)));
    v.push(("unknown E1", w(0, 0, 0, 0xE1)));
    v.push(("unknown FF", w(0xFF, 0xFF, 0xFF, 0xFF)));
    v.push(("unknown 1F nd-bit", w(0, 0x20, 0, 0x1F)));
    v.push(("unknown 5F pd-bit", w(0, 0, 1, 0x5F)));
    v.push(("unknown E9 nd-bit", w(0x01, 0x30, 0, 0xE9)));
    v
}

pub struct Rig {
    fsm: ItsPayloadFsmContinuous,
    val: CdpRunningValidator<RdhCru, Cfg>,
    rx: flume::Receiver<StatType>,
    model: M,
    rdh_off: u64,
    widx: u64,
    page: u16,
}

pub fn rdh_bytes(page: u16, stop: u8, orbit: u32, fee: u16, link: u8) -> [u8; 64] {
    let mut b = [0u8; 64];
    b[0] = 7;
    b[1] = 0x40;
    b[2..4].copy_from_slice(&fee.to_le_bytes());
    b[5] = 32;
    b[8..10].copy_from_slice(&5088u16.to_le_bytes());
    b[10..12].copy_from_slice(&5088u16.to_le_bytes());
    b[12] = link;
    b[20..24].copy_from_slice(&orbit.to_le_bytes());
    b[24] = 2;
    b[32..36].copy_from_slice(&0x6803u32.to_le_bytes());
    b[36..38].copy_from_slice(&page.to_le_bytes());
    b[38] = stop;
    b
}

impl Rig {
    pub fn new(cfg: &'static Cfg) -> Self {
        let (tx, rx) = flume::unbounded();
        let mut r = Rig {
            fsm: ItsPayloadFsmContinuous::new(),
            val: CdpRunningValidator::new(cfg, tx),
            rx,
            model: M::ExpIhw,
            rdh_off: 0,
            widx: 0,
            page: 0,
        };
        r.new_packet();
        r
    }
    pub fn new_packet(&mut self) {
        self.rdh_off += 64 + 10 * self.widx + 6;
        self.widx = 0;
        let b = rdh_bytes(self.page, 0, 77, 0x1000, 3);
        self.page = self.page.wrapping_add(1);
        let rdh = RdhCru::load(&mut &b[..]).unwrap();
        self.val.set_current_rdh(&rdh, self.rdh_off);
    }
    pub fn reset(&mut self) {
        let _ = self.fsm.reset_fsm();
        let _ = self.val.reset_fsm();
        self.model = M::ExpIhw;
    }
    pub fn pair(&self) -> (u8, M) {
        (self.fsm.verif_state_id(), self.model)
    }
    /// Feed one word; Err(description) on a disagreement with the diagram
    pub fn step(&mut self, w: &[u8; 10]) -> Result<bool, String> {
        let before = self.pair();
        let verdict = model(self.model, w);
        let cls = self.fsm.advance(w);
        let id_after = self.fsm.verif_state_id();
        self.val.check(w);
        let woff = self.rdh_off + 64 + 10 * self.widx;
        self.widx += 1;
        let mut codes: Vec<String> = Vec::new();
        let mut bad_offset: Option<String> = None;
        while let Ok(st) = self.rx.try_recv() {
            if let StatType::Error(m) = st {
                let pre = format!("{woff:#X}: ");
                if !m.starts_with(&pre) {
                    bad_offset = Some(m.to_string());
                }
                let mut rest: &str = &m;
                while let Some(i) = rest.find("[E") {
                    let tail = &rest[i + 2..];
                    if let Some(j) = tail.find(']') {
                        codes.push(tail[..j].to_string());
                    }
                    rest = &tail[1..];
                }
            }
        }
        if let Some(m) = bad_offset {
            return Err(format!("message not located at the word offset {woff:#X}: {m}"));
        }
        let succ = corr(id_after).ok_or_else(|| format!("unknown implementation state id {id_after}"))?;
        let has = |set: &[&str]| codes.iter().any(|c| set.contains(&c.as_str()));
        const ID_CODES: &[&str] = &["30", "40", "50", "60", "70", "990", "991", "992"];
        let mut illegal = false;
        match verdict {
            Verdict::Legal(kind, next) => {
                match cls {
                    Ok(k) if base_kind(k) == kind => {}
                    other => {
                        return Err(format!(
                            "state {before:?}: legal word {} classified as {other:?}, diagram says {kind:?}",
                            hex(w)
                        ))
                    }
                }
                if succ != next {
                    return Err(format!(
                        "state {before:?}: word {} ({kind:?}) led to implementation state {id_after} = {succ:?}, diagram successor is {next:?}",
                        hex(w)
                    ));
                }
                if kind != Kind::Cdw && has(ID_CODES) {
                    return Err(format!(
                        "state {before:?}: legal word {} ({kind:?}) was reported with {codes:?}",
                        hex(w)
                    ));
                }
                self.model = next;
            }
            Verdict::Either(kind, next) => {
                match cls {
                    Ok(k) if base_kind(k) == kind => {
                        if succ != next {
                            return Err(format!(
                                "state {before:?}: word {} accepted as {kind:?} but successor {succ:?} != {next:?}",
                                hex(w)
                            ));
                        }
                    }
                    _ => {
                        if !has(CHOICE) {
                            return Err(format!(
                                "state {before:?}: word {} neither accepted as {kind:?} nor reported",
                                hex(w)
                            ));
                        }
                    }
                }
                self.model = succ;
            }
            Verdict::Illegal(need) => {
                illegal = true;
                if !has(need) {
                    return Err(format!(
                        "state {before:?}: word {} with an identifier that is illegal here was silently accepted (codes reported at the word: {codes:?}, need one of {need:?})",
                        hex(w)
                    ));
                }
                self.model = succ;
            }
        }
        Ok(illegal)
    }
}

pub fn main(args: &[String]) -> i32 {
    let cfg = init_cfg(&["check".into(), "all".into(), "its".into()]);
    let seed = arg_u64(args, "--seed", 1);
    let nrand = arg_u64(args, "--random", 100_000);
    let alpha = alphabet();
    let mut violations: Vec<String> = Vec::new();

    // ---- exhaustive closure of the product (implementation state id x diagram state) -----------------
    let mut paths: BTreeMap<(u8, M), Vec<usize>> = BTreeMap::new();
    let mut queue: VecDeque<(u8, M)> = VecDeque::new();
    let start = Rig::new(cfg).pair();
    paths.insert(start, vec![]);
    queue.push_back(start);
    let mut transitions: BTreeSet<((u8, M), usize, (u8, M))> = BTreeSet::new();
    let mut illegal_pairs = 0u64;
    let mut legal_steps = 0u64;
    while let Some(p) = queue.pop_front() {
        let path = paths[&p].clone();
        for (ci, (cname, word)) in alpha.iter().enumerate() {
            let mut rig = Rig::new(cfg);
            let mut ok = true;
            for &k in &path {
                if rig.step(&alpha[k].1).is_err() {
                    ok = false;
                    break;
                }
            }
            if !ok {
                continue; // the prefix itself was already reported when it was first taken
            }
            if rig.pair() != p {
                violations.push(format!("non-deterministic replay reaching {p:?}"));
                continue;
            }
            match rig.step(word) {
                Ok(illegal) => {
                    if illegal {
                        illegal_pairs += 1;
                    } else {
                        legal_steps += 1;
                    }
                    let q = rig.pair();
                    transitions.insert((p, ci, q));
                    if !paths.contains_key(&q) {
                        let mut np = path.clone();
                        np.push(ci);
                        paths.insert(q, np);
                        queue.push_back(q);
                    }
                }
                Err(e) => {
                    let names: Vec<&str> = path.iter().map(|&k| alpha[k].0).collect();
                    violations.push(format!("after [{}] then {cname}: {e}", names.join(", ")));
                }
            }
        }
    }
    let pairs: Vec<String> = paths.keys().map(|(i, m)| format!("{i}:{m:?}")).collect();
    let model_states: BTreeSet<M> = paths.keys().map(|(_, m)| *m).collect();
    let impl_states: BTreeSet<u8> = paths.keys().map(|(i, _)| *i).collect();

    // ---- random long histories ----------------------------------------------------------------------------
    let mut rng = Rng::new(seed);
    let mut rig = Rig::new(cfg);
    let mut hist: VecDeque<String> = VecDeque::new();
    let mut rand_steps = 0u64;
    let mut rand_illegal = 0u64;
    let mut resets = 0u64;
    let mut rand_pairs: BTreeSet<(u8, M)> = BTreeSet::new();
    let mut rand_trans: BTreeSet<((u8, M), u8, (u8, M))> = BTreeSet::new();
    while rand_steps < nrand && violations.len() < 20 {
        if rng.chance(1, 40) {
            rig.new_packet();
            hist.push_back("<new packet>".into());
        }
        if rng.chance(1, 3000) {
            rig.reset();
            resets += 1;
            hist.push_back("<reset>".into());
        }
        // 80 %: a word that is legal in the current diagram state; else anything
        let mut w: [u8; 10] = alpha[rng.below(alpha.len() as u64) as usize].1;
        if rng.chance(4, 5) {
            for _ in 0..30 {
                let cand = alpha[rng.below(alpha.len() as u64) as usize].1;
                if matches!(model(rig.model, &cand), Verdict::Legal(..) | Verdict::Either(..)) {
                    w = cand;
                    break;
                }
            }
        }
        if rng.chance(1, 4) {
            // random identifier, random flag bits
            if rng.chance(1, 2) {
                let id = rng.below(256) as u8;
                // a status word identifier gets a sane body of that word type, so that only the identifier matters
                w = match id {
                    0xE0 => alpha[0].1,
                    0xE8 => alpha[1].1,
                    0xF0 => alpha[5].1,
                    0xE4 => alpha[7].1,
                    0xF8 => alpha[8].1,
                    _ => {
                        let mut x = w;
                        x[9] = id;
                        x
                    }
                };
            }
            if w[9] != 0xE0 && w[9] != 0xE4 {
                w[1] = (w[1] & !0x60) | ((rng.below(4) as u8) << 5);
            }
            if w[9] == 0xF0 {
                w[8] = rng.below(2) as u8;
            }
        }
        let p = rig.pair();
        hist.push_back(format!("{:?} <- {}", p, hex(&w)));
        if hist.len() > 12 {
            hist.pop_front();
        }
        match rig.step(&w) {
            Ok(ill) => {
                rand_illegal += ill as u64;
                rand_pairs.insert(rig.pair());
                rand_trans.insert((p, w[9], rig.pair()));
            }
            Err(e) => {
                violations.push(format!(
                    "random history (seed {seed}, step {rand_steps}): {e}; last steps: {:?}",
                    hist
                ));
                rig = Rig::new(cfg);
                hist.clear();
            }
        }
        rand_steps += 1;
    }

    let ok = violations.is_empty();
    println!(
        "{{\"ok\":{ok},\"product_pairs\":{},\"model_states\":{},\"impl_states\":{},\"alphabet\":{},\"transitions\":{},\"illegal_state_word_pairs\":{},\"legal_steps\":{},\"random_steps\":{rand_steps},\"random_illegal\":{rand_illegal},\"random_pairs\":{},\"random_transitions\":{},\"resets\":{resets},\"pairs\":{},\"violations\":[{}]}}",
        paths.len(),
        model_states.len(),
        impl_states.len(),
        alpha.len(),
        transitions.len(),
        illegal_pairs,
        legal_steps,
        rand_pairs.len(),
        rand_trans.len(),
        json_str(&pairs.join(" ")),
        violations.iter().take(10).map(|v| json_str(v)).collect::<Vec<_>>().join(",")
    );
    if ok {
        0
    } else {
        1
    }
}
