//! Small utilities: xorshift rng, JSON-ish output helpers, config initialisation.
use fastpasta::config::{Cfg, CONFIG};

pub struct Rng(pub u64);
impl Rng {
    pub fn new(seed: u64) -> Self {
        Rng(seed.wrapping_mul(0x9E3779B97F4A7C15) | 1)
    }
    pub fn next(&mut self) -> u64 {
        let mut x = self.0;
        x ^= x << 13;
        x ^= x >> 7;
        x ^= x << 17;
        self.0 = x;
        x.wrapping_mul(0x2545F4914F6CDD1D)
    }
    pub fn below(&mut self, n: u64) -> u64 {
        if n == 0 {
            0
        } else {
            self.next() % n
        }
    }
    pub fn chance(&mut self, num: u64, den: u64) -> bool {
        self.below(den) < num
    }
    pub fn pick<'a, T>(&mut self, xs: &'a [T]) -> &'a T {
        &xs[self.below(xs.len() as u64) as usize]
    }
}

pub fn hex(b: &[u8]) -> String {
    b.iter().map(|x| format!("{x:02X}")).collect::<Vec<_>>().join(" ")
}

/// Initialise fastpasta's global configuration from a fastpasta command line (one per process).
pub fn init_cfg(argv: &[String]) -> &'static Cfg {
    let mut full = vec!["fastpasta".to_string()];
    full.extend(argv.iter().cloned());
    let cfg = <Cfg as clap::Parser>::parse_from(full);
    cfg.handle_custom_checks();
    CONFIG.set(cfg).expect("config set twice");
    Cfg::global()
}

pub fn json_str(s: &str) -> String {
    let mut o = String::with_capacity(s.len() + 2);
    o.push('"');
    for c in s.chars() {
        match c {
            '"' => o.push_str("\\\""),
            '\\' => o.push_str("\\\\"),
            '\n' => o.push_str("\\n"),
            '\t' => o.push_str("\\t"),
            '\r' => o.push_str("\\r"),
            c if (c as u32) < 0x20 => o.push_str(&format!("\\u{:04x}", c as u32)),
            c => o.push(c),
        }
    }
    o.push('"');
    o
}

pub fn arg_val(args: &[String], name: &str) -> Option<String> {
    args.iter().position(|a| a == name).and_then(|i| args.get(i + 1).cloned())
}
pub fn arg_u64(args: &[String], name: &str, default: u64) -> u64 {
    arg_val(args, name).and_then(|v| v.parse().ok()).unwrap_or(default)
}
/// Arguments after a literal `--`
pub fn after_dashes(args: &[String]) -> Vec<String> {
    match args.iter().position(|a| a == "--") {
        Some(i) => args[i + 1..].to_vec(),
        None => vec![],
    }
}
