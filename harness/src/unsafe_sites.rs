//! C04 (thorough, also run under Miri): drives the code around the `unsafe` sites with every input class that can reach them.
//!  - `load_payload_raw` (read into uninitialised capacity): zero length, max length, short reads  -> via `scan`
//!  - `any_as_u8_slice` (RDH and status words re-serialised)
//!  - `unreachable_unchecked` in the ALPIDE decoder: all 256 bytes in both header states
//!  - `unreachable_unchecked` in the readout frame view dispatcher: all 256 word identifiers
use crate::util::*;
use alice_protocol_reader::cdp_wrapper::cdp_array::CdpArray;
use alice_protocol_reader::prelude::*;
use fastpasta::analyze::validators::its::alpide::lane_alpide_frame_analyzer::LaneAlpideFrameAnalyzer;
use fastpasta::analyze::view::lib::generate_view;
use fastpasta::config::prelude::ViewCommands;
use fastpasta::words::its::lane_data_frame::LaneDataFrame;
use fastpasta::words::its::status_words::{cdw::Cdw, ddw::Ddw0, ihw::Ihw, tdh::Tdh, tdt::Tdt, StatusWord};
use fastpasta::words::its::Layer;

pub fn main(args: &[String]) -> i32 {
    let seed = arg_u64(args, "--seed", 1);
    let mut rng = Rng::new(seed);
    let _cfg = init_cfg(&["view".into(), "its-readout-frames-data".into(), "-d".into()]);
    let mut n = 0u64;
    // ALPIDE decoder: every byte value as first byte, after a chip header, after an empty frame, after a region header, inside skips
    for layer in [Layer::Inner, Layer::Middle, Layer::Outer] {
        for b in 0..=255u8 {
            let prefixes: [&[u8]; 7] = [&[], &[0xA1, 0x05], &[0xE1, 0x05], &[0xA1, 0x05, 0xC0], &[0xA1, 0x05, 0xC0, 0x41], &[0xA1, 0x05, 0xC0, 0x01, 0x02], &[0xA1, 0x05, 0xB0]];
            for pre in prefixes {
                let mut data = pre.to_vec();
                data.push(b);
                data.push(rng.below(256) as u8);
                data.push(b);
                let mut an = LaneAlpideFrameAnalyzer::new(layer, None, None);
                let _ = an.analyze_alpide_frame(&LaneDataFrame::new(0x21, data));
                n += 1;
            }
        }
    }
    // status words re-serialised through the raw byte view
    for _ in 0..64 {
        let mut w = [0u8; 10];
        for x in w.iter_mut() {
            *x = rng.below(256) as u8;
        }
        let s = format!(
            "{} {} {} {} {}",
            Ihw::load(&mut &w[..]).unwrap(),
            Tdh::load(&mut &w[..]).unwrap(),
            Tdt::load(&mut &w[..]).unwrap(),
            Ddw0::load(&mut &w[..]).unwrap(),
            Cdw::load(&mut &w[..]).unwrap()
        );
        if !s.to_lowercase().contains(&format!("{:02x}", w[0])) {
            println!("{{\"ok\":false,\"violations\":[\"status word display does not show its bytes\"]}}");
            return 1;
        }
        n += 5;
    }
    // view dispatcher: all 256 identifiers, both data formats, styled and unstyled is chosen by the config (unstyled here)
    for fmt in [0u8, 2] {
        let mut arr: CdpArray<RdhCru, 100> = CdpArray::new();
        let mut payload = Vec::new();
        for id in 0..=255u8 {
            let mut w = [0u8; 10];
            for x in w.iter_mut() {
                *x = rng.below(256) as u8;
            }
            w[9] = id;
            if id == 0xFF {
                w[9] = 0xFE; // a trailing 0xFF would be padding
            }
            payload.extend_from_slice(&w);
            if fmt == 0 {
                payload.extend_from_slice(&[0u8; 6]);
            }
        }
        let mut h = crate::fsm::rdh_bytes(0, 0, 7, 0x1000, 3);
        h[24] = fmt;
        let size = (64 + payload.len()) as u16;
        h[8..10].copy_from_slice(&size.to_le_bytes());
        h[10..12].copy_from_slice(&size.to_le_bytes());
        let rdh = RdhCru::load(&mut &h[..]).unwrap();
        let back = rdh.to_byte_slice().to_vec();
        if back != h.to_vec() {
            println!("{{\"ok\":false,\"violations\":[\"RDH re-serialisation differs from the input bytes\"]}}");
            return 1;
        }
        arr.push(rdh, payload, 0);
        for v in [ViewCommands::ItsReadoutFramesData, ViewCommands::ItsReadoutFrames, ViewCommands::Rdh] {
            let _ = generate_view(v, &arr);
            n += 256;
        }
    }
    println!("{{\"ok\":true,\"cases\":{n},\"violations\":[]}}");
    0
}
