//! C10: RDH sanity and running checks against a reference model of the documented rules, in-process.
use crate::util::*;
use alice_protocol_reader::prelude::*;
use fastpasta::analyze::validators::rdh::{RdhCruSanityValidator, SpecializeChecks};
use fastpasta::analyze::validators::rdh_running::RdhCruRunningChecker;

#[derive(Clone, Copy, Debug)]
pub struct F {
    pub header_id: u8,
    pub header_size: u8,
    pub fee: u16,
    pub prio: u8,
    pub sys: u8,
    pub r0: u16,
    pub dw: u8,
    pub bc: u16,
    pub r1: u32,
    pub orbit: u32,
    pub fmt: u8,
    pub trg: u32,
    pub pages: u16,
    pub stop: u8,
    pub r2: u8,
    pub det: u32,
    pub r3: u16,
}

pub fn decode(b: &[u8; 64]) -> F {
    let u16at = |i: usize| u16::from_le_bytes([b[i], b[i + 1]]);
    let u32at = |i: usize| u32::from_le_bytes([b[i], b[i + 1], b[i + 2], b[i + 3]]);
    F {
        header_id: b[0],
        header_size: b[1],
        fee: u16at(2),
        prio: b[4],
        sys: b[5],
        r0: u16at(6),
        dw: (u16at(14) >> 12) as u8,
        bc: (u32at(16) & 0xFFF) as u16,
        r1: u32at(16) >> 12,
        orbit: u32at(20),
        fmt: b[24],
        trg: u32at(32),
        pages: u16at(36),
        stop: b[38],
        r2: b[39],
        det: u32at(48),
        r3: u16at(54),
    }
}

/// documented sanity conditions (doc/checks_list.md; bc <= 0xdeb and detector field bits 23:12, see DESIGN.md)
pub fn ref_sanity(f: &F, first_header_id: u8, its: bool) -> bool {
    let fee_ok = f.fee & 0x8CC0 == 0 && (f.fee & 0x3F) <= 47 && ((f.fee >> 12) & 7) <= 6;
    f.header_id == first_header_id
        && f.header_size == 0x40
        && fee_ok
        && f.prio == 0
        && (!its || f.sys == 32)
        && f.r0 == 0
        && f.r1 == 0
        && f.bc <= 0xdeb
        && f.r2 == 0
        && f.stop <= 1
        && f.trg != 0
        && f.trg & 0x07FF_8000 == 0
        && f.r3 == 0
        && f.det & 0x00FF_F000 == 0
        && f.dw <= 1
        && f.fmt <= 2
}

#[derive(Default)]
pub struct RefRunning {
    n: u64,
    expect: u16,
    incr: u16,
    last: Option<F>,
}
impl RefRunning {
    pub fn new() -> Self {
        RefRunning { n: 0, expect: 0, incr: 1, last: None }
    }
    /// true = passes
    pub fn check(&mut self, f: &F) -> bool {
        self.n += 1;
        if self.n == 2 {
            self.incr = f.pages;
        }
        let mut ok = true;
        match f.stop {
            0 => {
                ok &= f.pages == self.expect;
                self.expect = self.expect.wrapping_add(self.incr);
            }
            1 => {
                ok &= f.pages == self.expect;
                self.expect = 0;
            }
            _ => ok = false,
        }
        if let Some(l) = &self.last {
            if l.stop == 1 && l.orbit == f.orbit {
                ok = false;
            }
            if f.pages != 0 && (f.orbit != l.orbit || f.trg != l.trg || f.fee != l.fee) {
                ok = false;
            }
        }
        self.last = Some(*f);
        ok
    }
}

fn load(b: &[u8; 64]) -> RdhCru {
    RdhCru::load(&mut &b[..]).unwrap()
}

/// run a sequence through fresh validators; returns (impl sanity ok, impl running ok, ref sanity ok, ref running ok) per index
fn run_seq(seq: &[[u8; 64]], its: bool) -> Vec<(bool, bool, bool, bool, String)> {
    let mut sv: RdhCruSanityValidator<RdhCru> = if its {
        RdhCruSanityValidator::with_specialization(SpecializeChecks::ITS)
    } else {
        RdhCruSanityValidator::default()
    };
    let mut rv: RdhCruRunningChecker<RdhCru> = RdhCruRunningChecker::new();
    let mut rr = RefRunning::new();
    let first_id = seq[0][0];
    seq.iter()
        .map(|b| {
            let rdh = load(b);
            let s = sv.sanity_check(&rdh);
            let r = rv.check(&rdh);
            let f = decode(b);
            let txt = format!("{}{}", s.clone().err().unwrap_or_default(), r.clone().err().unwrap_or_default());
            (s.is_ok(), r.is_ok(), ref_sanity(&f, first_id, its), rr.check(&f), txt)
        })
        .collect()
}

fn base_header(rng: &mut Rng, page: u16, stop: u8, orbit: u32, trg: u32, fee: u16, det: u32, version: u8) -> [u8; 64] {
    let mut b = crate::fsm::rdh_bytes(page, stop, orbit, fee, rng.below(12) as u8);
    b[0] = version;
    b[13] = rng.below(256) as u8;
    let cru = (rng.below(4096) as u16) | ((rng.below(2) as u16) << 12);
    b[14..16].copy_from_slice(&cru.to_le_bytes());
    let bc = rng.below(0xdec) as u32;
    b[16..20].copy_from_slice(&bc.to_le_bytes());
    b[24] = *rng.pick(&[0u8, 2, 2, 1]);
    b[32..36].copy_from_slice(&trg.to_le_bytes());
    b[48..52].copy_from_slice(&det.to_le_bytes());
    // unchecked fields: arbitrary
    if rng.chance(1, 2) {
        b[52..54].copy_from_slice(&(rng.next() as u16).to_le_bytes()); // par bit
        b[40..48].copy_from_slice(&rng.next().to_le_bytes()); // reserved1
        b[56..64].copy_from_slice(&rng.next().to_le_bytes()); // reserved2
    }
    b
}

/// a conforming RDH sequence of one link that starts with pages 0 and 1
fn conforming(rng: &mut Rng, n: usize) -> Vec<[u8; 64]> {
    let mut v = Vec::new();
    // extremes: a link that starts just below the 32-bit roll-over (so that it passes through / lands on orbit 0) or whose first HBF is at orbit 0
    let mut orbit = match rng.below(8) {
        0 => 0u32.wrapping_sub(1 + rng.below(4) as u32),
        1 => 0u32.wrapping_sub(1),
        _ => rng.next() as u32 / 2,
    };
    let mut first = true;
    let start_zero = rng.chance(1, 16);
    let version = *rng.pick(&[6u8, 7]);
    let fee = (((rng.below(7) as u16) << 12) | ((rng.below(3) as u16) << 8) | rng.below(48) as u16) as u16;
    while v.len() < n {
        orbit = if first && start_zero { 0 } else if orbit == u32::MAX { 0 } else { orbit.wrapping_add(1 + rng.below(3) as u32) };
        first = false;
        let npages = if v.is_empty() { 1 + rng.below(4) } else { rng.below(5) } as u16 + 1;
        let trg = (0x3 | (rng.below(0x2000) as u32) << 1 | (rng.below(32) as u32) << 27) & !0x07FF_8000 | 1;
        let det = (rng.below(4096) as u32) | ((rng.below(256) as u32) << 24);
        for p in 0..npages {
            v.push(base_header(rng, p, 0, orbit, trg, fee, det, version));
        }
        v.push(base_header(rng, npages, 1, orbit, trg, fee, det, version));
    }
    v
}

pub fn main(args: &[String]) -> i32 {
    let seed = arg_u64(args, "--seed", 1);
    let nbase = arg_u64(args, "--bases", 40) as usize;
    let nwalk = arg_u64(args, "--walks", 200) as usize;
    let walk_len = arg_u64(args, "--walk-len", 300) as usize;
    let mut rng = Rng::new(seed);
    let mut viol: Vec<String> = Vec::new();
    let mut verdicts = 0u64;
    let mut nontrivial = 0u64; // verdicts where the reference reports an error
    let mut sanity_bits = std::collections::BTreeSet::new(); // bit positions whose flip makes a conforming RDH fail sanity
    let mut running_bits = std::collections::BTreeSet::new();
    let mut compare = |seq: &[[u8; 64]], its: bool, what: &str, viol: &mut Vec<String>| -> Vec<(bool, bool)> {
        let res = run_seq(seq, its);
        let mut out = Vec::new();
        for (i, (is, ir, rs, rr, txt)) in res.iter().enumerate() {
            verdicts += 2;
            nontrivial += (!*rs) as u64 + (!*rr) as u64;
            if is != rs && viol.len() < 20 {
                viol.push(format!(
                    "{what}: RDH #{i} [{}] its={its}: sanity check {} but the documented rules say {} ({txt})",
                    hex(&seq[i]),
                    if *is { "passes" } else { "fails" },
                    if *rs { "valid" } else { "invalid" }
                ));
            }
            if ir != rr && viol.len() < 20 {
                viol.push(format!(
                    "{what}: RDH #{i} [{}] (previous [{}]): running check {} but the documented rules say {} ({txt})",
                    hex(&seq[i]),
                    if i > 0 { hex(&seq[i - 1]) } else { String::new() },
                    if *ir { "passes" } else { "fails" },
                    if *rr { "consistent" } else { "inconsistent" }
                ));
            }
            out.push((*rs, *rr));
        }
        out
    };

    // (i) every single-bit deviation of all 512 bits, at several positions of a conforming sequence
    let mut flips = 0u64;
    for bi in 0..nbase {
        let seq = conforming(&mut rng, 6 + (bi % 5));
        let its = bi % 2 == 0;
        let clean = compare(&seq, its, "conforming sequence", &mut viol);
        if clean.iter().any(|(s, r)| !s || !r) {
            viol.push(format!("generator/reference disagreement: conforming sequence judged invalid by the reference (base {bi})"));
            continue;
        }
        let positions = [0usize, 1, 2, seq.len() / 2, seq.len() - 1];
        for &pos in positions.iter() {
            for bit in 0..512usize {
                let mut m = seq.clone();
                m[pos][bit / 8] ^= 1 << (bit % 8);
                let r = compare(&m, its, &format!("bit {bit} flipped in RDH #{pos}"), &mut viol);
                flips += 1;
                if !r[pos].0 {
                    sanity_bits.insert(bit);
                }
                if r.iter().any(|x| !x.1) {
                    running_bits.insert(bit);
                }
            }
        }
        // boundary values
        let mut set = |pos: usize, f: &dyn Fn(&mut [u8; 64]), what: &str, viol: &mut Vec<String>| {
            let mut m = seq.clone();
            f(&mut m[pos]);
            compare(&m, its, what, viol);
        };
        for pos in [0usize, 2, seq.len() - 1] {
            for bc in [0u32, 0xdea, 0xdeb, 0xdec, 0xded, 0xfff] {
                set(pos, &|b| b[16..20].copy_from_slice(&bc.to_le_bytes()), &format!("bc={bc:#x}"), &mut viol);
            }
            for stave in [0u16, 46, 47, 48, 49, 63] {
                set(pos, &|b| { let f = (u16::from_le_bytes([b[2], b[3]]) & !0x3F) | stave; b[2..4].copy_from_slice(&f.to_le_bytes()) }, &format!("stave={stave}"), &mut viol);
            }
            for layer in 0u16..8 {
                set(pos, &|b| { let f = (u16::from_le_bytes([b[2], b[3]]) & !0x7000) | layer << 12; b[2..4].copy_from_slice(&f.to_le_bytes()) }, &format!("layer={layer}"), &mut viol);
            }
            for stop in [0u8, 1, 2, 3, 255] {
                set(pos, &|b| b[38] = stop, &format!("stop={stop}"), &mut viol);
            }
            for fmt in [0u8, 1, 2, 3, 4, 255] {
                set(pos, &|b| b[24] = fmt, &format!("data_format={fmt}"), &mut viol);
            }
            for dw in [0u16, 1, 2, 3, 15] {
                set(pos, &|b| { let c = (u16::from_le_bytes([b[14], b[15]]) & 0xFFF) | dw << 12; b[14..16].copy_from_slice(&c.to_le_bytes()) }, &format!("dw={dw}"), &mut viol);
            }
            for sys in [0u8, 31, 32, 33, 255] {
                set(pos, &|b| b[5] = sys, &format!("system_id={sys}"), &mut viol);
            }
            for trg in [0u32, 1, 0x10, 0x4000, 0x8000, 0x0400_0000, 0x0800_0000, 0x8000_0000, 0xFFFF_FFFF] {
                set(pos, &|b| b[32..36].copy_from_slice(&trg.to_le_bytes()), &format!("trigger={trg:#x}"), &mut viol);
            }
            for hs in [0u8, 0x3f, 0x40, 0x41] {
                set(pos, &|b| b[1] = hs, &format!("header_size={hs:#x}"), &mut viol);
            }
            for ver in [3u8, 6, 7, 8] {
                set(pos, &|b| b[0] = ver, &format!("header_id={ver}"), &mut viol);
            }
        }
    }

    // (ii) random walks with injected faults
    let mut walk_rdhs = 0u64;
    for wi in 0..nwalk {
        let mut seq = conforming(&mut rng, walk_len);
        let nf = rng.below(1 + walk_len as u64 / 10) as usize;
        for _ in 0..nf {
            let pos = 2 + rng.below(seq.len() as u64 - 2) as usize;
            let b = &mut seq[pos];
            match rng.below(12) {
                0 => { let p = u16::from_le_bytes([b[36], b[37]]).wrapping_add(1 + rng.below(3) as u16); b[36..38].copy_from_slice(&p.to_le_bytes()) }
                1 => { let p = u16::from_le_bytes([b[36], b[37]]).wrapping_sub(1); b[36..38].copy_from_slice(&p.to_le_bytes()) }
                2 => b[38] ^= 1,
                3 => b[38] = 2 + rng.below(3) as u8,
                4 => { let o = u32::from_le_bytes([b[20], b[21], b[22], b[23]]).wrapping_add(1); b[20..24].copy_from_slice(&o.to_le_bytes()) }
                5 => { let o = u32::from_le_bytes([b[20], b[21], b[22], b[23]]).wrapping_sub(1 + rng.below(2) as u32); b[20..24].copy_from_slice(&o.to_le_bytes()) }
                6 => b[32] ^= 0x10,
                7 => b[2] ^= 1,
                8 => b[48] ^= 1, // detector field change: warning only
                9 => { let bit = rng.below(512) as usize; b[bit / 8] ^= 1 << (bit % 8) }
                10 => b[36] = 0,
                _ => { b[36] = 0; b[37] = 0; b[38] = 0 }
            }
        }
        // sometimes remove or duplicate a packet
        if rng.chance(1, 3) && seq.len() > 4 {
            let pos = 2 + rng.below(seq.len() as u64 - 3) as usize;
            if rng.chance(1, 2) {
                seq.remove(pos);
            } else {
                let c = seq[pos];
                seq.insert(pos, c);
            }
        }
        walk_rdhs += seq.len() as u64;
        compare(&seq, wi % 2 == 0, &format!("random walk {wi} (seed {seed})"), &mut viol);
    }
    drop(compare);
    let ok = viol.is_empty();
    let sb: Vec<String> = sanity_bits.iter().map(|b| b.to_string()).collect();
    println!(
        "{{\"ok\":{ok},\"verdicts\":{verdicts},\"reference_error_verdicts\":{nontrivial},\"bit_flips\":{flips},\"bits_that_break_sanity\":{},\"bits_that_break_running\":{},\"sanity_bits\":{},\"walk_rdhs\":{walk_rdhs},\"violations\":[{}]}}",
        sanity_bits.len(),
        running_bits.len(),
        json_str(&sb.join(",")),
        viol.iter().take(10).map(|v| json_str(v)).collect::<Vec<_>>().join(",")
    );
    if ok {
        0
    } else {
        1
    }
}
